//! Well-formed relationship fields per Debian Policy 7.1 (DESIGN Appendix D).
use crate::core::rng::Rng;

pub const PKG: &[&str] = &["a", "b", "c", "foo", "bar", "libc6", "python3-dulwich", "g++", "lib.x", "z"];
pub const VERSIONS: &[&str] = &["1:2:3-1", "1", "1.0-1", "2.0~rc1", "1:2.0-1+b1", "0.9", "3"];
pub const OPS: &[&str] = &["<<", "<=", "=", ">=", ">>"];
pub const ARCHS: &[&str] = &["amd64", "i386", "arm64", "linux-any", "any", "hurd-i386"];
pub const PROFILES: &[&str] = &["stage1", "nocheck", "cross", "nodoc", "pkg.foo.bar"];

#[derive(Clone, Debug)]
pub struct RelFlags {
    pub free_ws: bool,
    pub newlines: bool,
    pub substvars: bool,
    pub empty_entries: bool,
    pub trailing_comma: bool,
    pub epochs: bool,
    pub max_entries: usize,
    pub neg_archs: bool,
    /// an architecture restriction list may be written with no architecture in it ("foo []"); only the typed lossy documents ask for it
    pub empty_archs: bool,
}

impl RelFlags {
    pub fn swarm(rng: &mut Rng) -> RelFlags {
        RelFlags {
            free_ws: rng.chance(1, 2),
            newlines: rng.chance(1, 3),
            substvars: rng.chance(1, 3),
            empty_entries: rng.chance(1, 4),
            trailing_comma: rng.chance(1, 4),
            epochs: rng.chance(1, 3),
            max_entries: if rng.chance(1, 60) { 20 + rng.below(80) } else { 1 + rng.below(4) },
            neg_archs: rng.chance(1, 2),
            empty_archs: false,
        }
    }
    pub fn canonical() -> RelFlags {
        RelFlags { free_ws: false, newlines: false, substvars: false, empty_entries: false, trailing_comma: false, epochs: true, max_entries: 3, neg_archs: false, empty_archs: false }
    }
}

fn ws(rng: &mut Rng, f: &RelFlags, default: &str) -> String {
    if !f.free_ws {
        return default.to_string();
    }
    match rng.below(6) {
        0 => String::new(),
        1 => " ".into(),
        2 => "  ".into(),
        3 => "\t".into(),
        4 if f.newlines => "\n ".into(),
        _ => default.to_string(),
    }
}

pub fn version(rng: &mut Rng, epochs: bool) -> String {
    loop {
        let v = *rng.pick(VERSIONS);
        if epochs || !v.contains(':') {
            return v.to_string();
        }
    }
}

pub fn relation(rng: &mut Rng, f: &RelFlags) -> String {
    let mut s = String::new();
    s.push_str(rng.s(PKG));
    if rng.chance(1, 6) {
        // the reader skips blanks on both sides of the qualifier colon
        if rng.chance(1, 4) {
            s.push_str(&ws(rng, f, ""));
        }
        s.push(':');
        if rng.chance(1, 8) {
            s.push_str(&ws(rng, f, ""));
        }
        s.push_str(rng.s(&["any", "native", "amd64"]));
    }
    if rng.chance(1, 2) {
        s.push_str(&ws(rng, f, " "));
        s.push('(');
        s.push_str(&ws(rng, f, ""));
        s.push_str(rng.s(OPS));
        s.push_str(&ws(rng, f, " "));
        s.push_str(&version(rng, f.epochs));
        s.push_str(&ws(rng, f, ""));
        s.push(')');
    }
    if rng.chance(1, 5) {
        s.push_str(&ws(rng, f, " "));
        s.push('[');
        let n = if f.empty_archs && rng.chance(1, 3) { 0 } else { 1 + rng.below(3) };
        let neg = f.neg_archs && rng.chance(1, 2);
        for i in 0..n {
            if i > 0 {
                s.push(' ');
            }
            if neg {
                s.push('!');
            }
            s.push_str(rng.s(ARCHS));
        }
        s.push(']');
    }
    if rng.chance(1, 6) {
        for _ in 0..1 + rng.below(2) {
            s.push_str(&ws(rng, f, " "));
            s.push('<');
            let n = 1 + rng.below(2);
            for i in 0..n {
                if i > 0 {
                    s.push(' ');
                }
                if rng.chance(1, 2) {
                    s.push('!');
                }
                s.push_str(rng.s(PROFILES));
            }
            s.push('>');
        }
    }
    s
}

pub fn entry(rng: &mut Rng, f: &RelFlags) -> String {
    if f.substvars && rng.chance(1, 4) {
        return format!("${{{}}}", rng.pick(&["misc:Depends", "shlibs:Depends", "python3:Depends", "x"]));
    }
    let n = if rng.chance(1, 4) { 2 + rng.below(2) } else { 1 };
    let mut s = String::new();
    for i in 0..n {
        if i > 0 {
            s.push_str(&ws(rng, f, " "));
            s.push('|');
            s.push_str(&ws(rng, f, " "));
        }
        s.push_str(&relation(rng, f));
    }
    s
}

/// A well-formed relationship field.
pub fn field(rng: &mut Rng, f: &RelFlags) -> String {
    let n = rng.below(f.max_entries + 1);
    let mut s = String::new();
    for i in 0..n {
        if i > 0 {
            s.push_str(&ws(rng, f, ""));
            s.push(',');
            s.push_str(&ws(rng, f, " "));
            if f.empty_entries && rng.chance(1, 4) {
                s.push(',');
                s.push_str(&ws(rng, f, " "));
            }
        }
        s.push_str(&entry(rng, f));
    }
    if f.trailing_comma && n > 0 {
        s.push(',');
    }
    s
}
