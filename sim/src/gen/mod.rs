pub mod text;
