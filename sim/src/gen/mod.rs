pub mod relations;
pub mod text;
pub mod typed;
