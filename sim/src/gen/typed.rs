//! Well-formed typed documents generated from field tables (control, apt, changes, buildinfo,
//! removal, copyright, DEP-3, APT sources) and typed field values.
use super::relations::{self, RelFlags};
use super::text;
use crate::core::rng::Rng;

#[derive(Clone, Copy, Debug, PartialEq)]
pub enum V {
    Word,
    Line,
    Version,
    Url,
    Rel,
    Multi,
    BoolTF,
    YesNo,
    UInt,
    Priority,
    MultiArch,
    Words,
    CommaWords,
    Lines,
    Sha1s,
    Sha256s,
    Md5s,
    Files,
    Date,
    DateYmd,
    Identity,
    Vcs,
    PkgList,
    Env,
    License,
    Globs,
    Origin,
    Forwarded,
    Applied,
    Types,
    Uris,
    YesNoForce,
    SignedBy,
    Urgency,
    Description,
    CFormat,
    NoSupport,
    Uploaders,
    Path,
}

pub struct F(pub &'static str, pub bool, pub V);

fn word(rng: &mut Rng) -> String {
    rng.pick(&["foo", "bar", "main", "stable", "x86", "libfoo-dev", "a", "net", "utils", "contrib/net", "1.0", "sid"]).to_string()
}

fn hex(rng: &mut Rng, n: usize) -> String {
    (0..n).map(|_| *rng.pick(&['0', '1', '2', '3', '4', '5', '6', '7', '8', '9', 'a', 'b', 'c', 'd', 'e', 'f'])).collect()
}

pub fn identity(rng: &mut Rng) -> String {
    match rng.below(5) {
        0 => "Jelmer Vernooĳ <jelmer@debian.org>".into(),
        1 => "joe@example.com".into(),
        2 => "A B C <a.b@c.d>".into(),
        3 => " Spacey  < s@p.c >".into(),
        _ => format!("{} <{}@example.org>", word(rng), word(rng)),
    }
}

pub fn url(rng: &mut Rng) -> String {
    format!(
        "{}://{}{}",
        rng.pick(&["https", "http", "git", "ftp"]),
        rng.pick(&["example.com", "salsa.debian.org", "deb.debian.org", "a.b"]),
        rng.pick(&["/", "/debian", "/foo/bar.git", "/x?y=z", "/a%20b"])
    )
}

pub fn vcs(rng: &mut Rng) -> String {
    let mut s = url(rng);
    if rng.chance(1, 2) {
        s.push_str(" -b ");
        s.push_str(rng.s(&["main", "debian/sid", "feature-x", "caf\u{e9}", "\u{65e5}\u{672c}"]));
    }
    if rng.chance(1, 2) {
        s.push_str(" [");
        s.push_str(rng.s(&["sub", "path/to", "x", "d\u{e9}b"]));
        s.push(']');
    }
    s
}

pub fn value(rng: &mut Rng, v: V) -> String {
    match v {
        V::Word => word(rng),
        V::Line => text::value_line(rng, true, false),
        V::Version => relations::version(rng, true),
        V::Url => url(rng),
        V::Rel => {
            // mostly canonical layout: the lossy relation reader does not accept every legal whitespace placement (C10)
            let mut f = RelFlags { substvars: false, ..RelFlags::swarm(rng) };
            if !rng.chance(1, 4) {
                f.free_ws = false;
                f.newlines = false;
            }
            // negated architecture lists are not representable in the lossy relation type (C10/C14 territory)
            f.neg_archs = rng.chance(1, 10);
            // an empty restriction list is a value of its own (Some(vec![])): the printer must keep it
            f.empty_archs = rng.chance(1, 4);
            relations::field(rng, &f)
        }
        V::Multi => text::value(rng, true, true),
        V::BoolTF => rng.pick(&["true", "false"]).to_string(),
        V::YesNo => rng.pick(&["yes", "no"]).to_string(),
        V::UInt => rng.pick(&["0", "1", "42", "1024", "4294967295"]).to_string(),
        V::Priority => rng.pick(&["required", "important", "standard", "optional", "extra"]).to_string(),
        V::MultiArch => rng.pick(&["same", "foreign", "no", "allowed"]).to_string(),
        V::Words => {
            // now and then a list long enough to pass any line-folding threshold
            let n = if rng.chance(1, 10) { 12 + rng.below(12) } else { 1 + rng.below(3) };
            // dpkg folds long lists: one item per line is as legal as one line
            let sep = if n > 1 && rng.chance(1, 5) { "\n" } else { " " };
            (0..n).map(|_| word(rng)).collect::<Vec<_>>().join(sep)
        }
        V::CommaWords => (0..1 + rng.below(3)).map(|_| rng.s(&["foo", "bar", "libfoo-dev", "a"]).to_string()).collect::<Vec<_>>().join(", "),
        V::Lines => (0..1 + rng.below(3)).map(|_| word(rng)).collect::<Vec<_>>().join("\n"),
        V::Sha1s => (0..1 + rng.below(2)).map(|_| format!("{} {} {}", hex(rng, 40), rng.below(100000), word(rng))).collect::<Vec<_>>().join("\n"),
        V::Sha256s => (0..1 + rng.below(2)).map(|_| format!("{} {} {}", hex(rng, 64), rng.below(100000), word(rng))).collect::<Vec<_>>().join("\n"),
        V::Md5s => (0..1 + rng.below(2)).map(|_| format!("{} {} {}", hex(rng, 32), rng.below(100000), word(rng))).collect::<Vec<_>>().join("\n"),
        V::Files => (0..1 + rng.below(2))
            .map(|_| format!("{} {} {} {} {}", hex(rng, 32), rng.below(100000), rng.pick(&["net", "contrib/utils", "main"]), rng.pick(&["optional", "extra"]), word(rng)))
            .collect::<Vec<_>>()
            .join("\n"),
        V::Date => rng.pick(&["Sat, 14 Dec 2024 10:15:30 +0000", "Mon, 01 Jan 2024 00:00:00 UTC", "Tue, 29 Feb 2028 23:59:59 +0100", "Sat, 24 Aug 2024 14:13:49 UTC",
            // RFC 2822 makes the day of week and the seconds optional, with either zone spelling
            "09 Aug 2025 09:05:32 UTC", "Sat, 09 Aug 2025 09:05 UTC", "14 Dec 2024 10:15 +0000", "9 Aug 2025 09:05 UTC"]).to_string(),
        V::DateYmd => rng.pick(&["2024-12-14", "2000-02-29", "1999-01-01"]).to_string(),
        V::Identity => identity(rng),
        V::Vcs => vcs(rng),
        V::PkgList => (0..1 + rng.below(2))
            .map(|_| {
                let mut s = format!("{} deb {} {}", word(rng), rng.pick(&["net", "utils"]), rng.pick(&["optional", "extra", "required"]));
                for _ in 0..rng.below(3) {
                    s.push_str(&format!(" {}={}", rng.pick(&["arch", "profile", "essential"]), word(rng)));
                }
                s
            })
            .collect::<Vec<_>>()
            .join("\n"),
        V::Env => (0..1 + rng.below(3)).map(|i| format!("{}{}=\"{}\"", rng.pick(&["LANG", "PATH", "DEB_BUILD_OPTIONS", "X"]), i, word(rng))).collect::<Vec<_>>().join("\n"),
        V::License => match rng.below(3) {
            0 => rng.pick(&["GPL-2+", "MIT", "Apache-2.0", "GPL-2+ or MIT"]).to_string(),
            1 => format!("{}\n{}", rng.pick(&["GPL-2+", "MIT"]), text::value(rng, false, true)),
            _ => format!("\n{}", text::value(rng, false, true)),
        },
        V::Globs => (0..1 + rng.below(3)).map(|_| rng.pick(&["*", "debian/*", "src/*.c", "a?b", "foo\\*", "x/y/z"]).to_string()).collect::<Vec<_>>().join(rng.s(&[" ", "\n"])),
        V::Origin => format!(
            "{}{}",
            rng.pick(&["", "backport, ", "vendor, ", "upstream, ", "other, "]),
            rng.pick(&["commit:abc123", "https://example.com/patch", "Debian", "commit:"])
        ),
        V::Forwarded => rng.pick(&["no", "not-needed", "https://example.com/bug/1", "yes"]).to_string(),
        V::Applied => rng.pick(&["commit:deadbeef", "1.2.3", "https://x/y", "commit:"]).to_string(),
        V::Types => rng.pick(&["deb", "deb-src", "deb deb-src", "deb-src deb"]).to_string(),
        V::Uris => (0..1 + rng.below(2)).map(|_| url(rng)).collect::<Vec<_>>().join(" "),
        V::YesNoForce => rng.pick(&["yes", "no", "force"]).to_string(),
        V::SignedBy => match rng.below(2) {
            0 => rng.pick(&["/usr/share/keyrings/debian.gpg", "/etc/apt/key.asc", "relative.gpg"]).to_string(),
            _ => "\n-----BEGIN PGP PUBLIC KEY BLOCK-----\n.\nmQINBF\n=abcd\n-----END PGP PUBLIC KEY BLOCK-----".to_string(),
        },
        V::Urgency => rng.pick(&["low", "medium", "high", "emergency", "critical", "Medium"]).to_string(),
        V::Description => {
            let mut s = text::value_line(rng, true, false);
            for _ in 0..rng.below(3) {
                s.push('\n');
                s.push_str(rng.s(&[".", "more text", "x y z", "  indented"]));
            }
            s
        }
        V::CFormat => match rng.below(6) {
            0 => "https://www.debian.org/doc/packaging-manuals/copyright-format/1.0/".to_string(),
            1 => "https://www.debian.org/doc/packaging-manuals/copyright-format/1.0".to_string(),
            2 => "http://www.debian.org/doc/packaging-manuals/copyright-format/1.0/".to_string(),
            3 => "http://www.debian.org/doc/packaging-manuals/copyright-format/1.0".to_string(),
            _ => url(rng),
        },
        V::Uploaders => {
            let n = 1 + rng.below(3);
            let mut v = (0..n).map(|_| identity(rng)).collect::<Vec<_>>().join(", ");
            // wrap-and-sort -t style trailing comma, with or without a blank after it
            if rng.chance(1, 4) {
                v.push_str(rng.s(&[",", ", ", " ,"]));
            }
            v
        }
        V::NoSupport => rng.pick(&["Packages", "Packages", "yes", "no"]).to_string(),
        V::Path => rng.pick(&["/build/foo-1.0", "/tmp/x", "relative/dir"]).to_string(),
    }
}

pub fn render_field(name: &str, val: &str, rng: &mut Rng) -> String {
    let mut s = String::new();
    s.push_str(name);
    s.push(':');
    // the common "Field:\n value,\n value" layout: nothing after the colon, the value starts on the next line
    let val_owned;
    let moved = format!("\n{}", val.replace(", ", ",\n"));
    let ok = !val.is_empty() && !val.starts_with('\n') && (val.contains('\n') || val.contains(',')) && !moved[1..].split('\n').any(|l| l.trim_start().starts_with('#') || l.trim().is_empty());
    let val = if ok && rng.chance(1, 6) {
        val_owned = moved;
        val_owned.as_str()
    } else {
        val
    };
    let lines: Vec<&str> = val.split('\n').collect();
    for (i, l) in lines.iter().enumerate() {
        if i == 0 {
            if !l.is_empty() {
                s.push(' ');
            }
        } else {
            s.push_str(if rng.chance(1, 8) { "  " } else { " " });
        }
        if i > 0 && l.is_empty() {
            s.push('.');
        }
        s.push_str(l);
        s.push('\n');
    }
    s
}

/// One paragraph from a field table: mandatory fields always, optional ones with p = 1/3, order shuffled.
pub fn para(rng: &mut Rng, table: &[F], shuffle: bool, comments: bool) -> String {
    let mut chosen: Vec<&F> = table.iter().filter(|f| f.1).collect();
    for f in table.iter().filter(|f| !f.1) {
        if rng.chance(1, 3) {
            chosen.push(f);
        }
    }
    if shuffle {
        rng.shuffle(&mut chosen);
    }
    let mut s = String::new();
    for f in chosen {
        if comments && rng.chance(1, 8) {
            s.push_str("# note\n");
        }
        let v = value(rng, f.2);
        s.push_str(&render_field(f.0, &v, rng));
    }
    s
}

pub const CONTROL_SOURCE: &[F] = &[
    F("Source", true, V::Word),
    F("Build-Depends", false, V::Rel),
    F("Build-Depends-Indep", false, V::Rel),
    F("Build-Depends-Arch", false, V::Rel),
    F("Build-Conflicts", false, V::Rel),
    F("Build-Conflicts-Indep", false, V::Rel),
    F("Build-Conflicts-Arch", false, V::Rel),
    F("Standards-Version", false, V::Word),
    F("Homepage", false, V::Url),
    F("Section", false, V::Word),
    F("Priority", false, V::Priority),
    F("Maintainer", false, V::Identity),
    F("Uploaders", false, V::Uploaders),
    F("Architecture", false, V::Words),
    F("Rules-Requires-Root", false, V::YesNo),
    F("Testsuite", false, V::Word),
    F("Vcs-Git", false, V::Vcs),
    F("Vcs-Browser", false, V::Url),
];

pub const CONTROL_BINARY: &[F] = &[
    F("Package", true, V::Word),
    F("Depends", false, V::Rel),
    F("Recommends", false, V::Rel),
    F("Suggests", false, V::Rel),
    F("Enhances", false, V::Rel),
    F("Pre-Depends", false, V::Rel),
    F("Breaks", false, V::Rel),
    F("Conflicts", false, V::Rel),
    F("Replaces", false, V::Rel),
    F("Provides", false, V::Rel),
    F("Built-Using", false, V::Rel),
    F("Architecture", false, V::Words),
    F("Section", false, V::Word),
    F("Priority", false, V::Priority),
    F("Multi-Arch", false, V::MultiArch),
    F("Essential", false, V::YesNo),
    F("Description", false, V::Description),
];

pub const APT_RELEASE: &[F] = &[
    F("Codename", true, V::Word),
    F("Components", true, V::Words),
    F("Architectures", true, V::Words),
    F("Description", true, V::Line),
    F("Origin", true, V::Word),
    F("Label", true, V::Word),
    F("Suite", true, V::Word),
    F("Version", true, V::Word),
    F("Date", true, V::Date),
    F("NotAutomatic", true, V::BoolTF),
    F("ButAutomaticUpgrades", true, V::BoolTF),
    F("Acquire-By-Hash", true, V::BoolTF),
    F("No-Support-for-Architecture-all", false, V::NoSupport),
];

pub const APT_SOURCE: &[F] = &[
    F("Directory", true, V::Path),
    F("Description", false, V::Description),
    F("Version", true, V::Version),
    F("Package", true, V::Word),
    F("Binary", false, V::CommaWords),
    F("Maintainer", false, V::Identity),
    F("Uploaders", false, V::Uploaders),
    F("Build-Depends", false, V::Rel),
    F("Build-Depends-Indep", false, V::Rel),
    F("Build-Conflicts", false, V::Rel),
    F("Build-Conflicts-Indep", false, V::Rel),
    F("Standards-Version", false, V::Word),
    F("Homepage", false, V::Url),
    F("Autobuild", false, V::BoolTF),
    F("Testsuite", false, V::Word),
    F("Vcs-Browser", false, V::Url),
    F("Vcs-Git", false, V::Vcs),
    F("Vcs-Bzr", false, V::Url),
    F("Priority", false, V::Priority),
    F("Section", false, V::Word),
    F("Format", false, V::Word),
    F("Package-List", true, V::PkgList),
    F("Files", false, V::Md5s),
    F("Checksums-Sha1", false, V::Sha1s),
    F("Checksums-Sha256", false, V::Sha256s),
];

pub const APT_PACKAGE: &[F] = &[
    F("Package", true, V::Word),
    F("Version", true, V::Version),
    F("Architecture", true, V::Word),
    F("Maintainer", false, V::Identity),
    F("Installed-Size", false, V::UInt),
    F("Depends", false, V::Rel),
    F("Pre-Depends", false, V::Rel),
    F("Recommends", false, V::Rel),
    F("Suggests", false, V::Rel),
    F("Enhances", false, V::Rel),
    F("Breaks", false, V::Rel),
    F("Conflicts", false, V::Rel),
    F("Provides", false, V::Rel),
    F("Replaces", false, V::Rel),
    F("Built-Using", false, V::Rel),
    F("Description", false, V::Description),
    F("Homepage", false, V::Url),
    F("Priority", false, V::Priority),
    F("Section", false, V::Word),
    F("Essential", false, V::BoolTF),
    F("Tag", false, V::Line),
    F("Size", false, V::UInt),
    F("MD5sum", false, V::Word),
    F("SHA256", false, V::Word),
    F("Description-MD5", false, V::Word),
    F("Filename", false, V::Path),
];

pub const CHANGES: &[F] = &[
    F("Format", true, V::Word),
    F("Date", false, V::Date),
    F("Source", true, V::Word),
    F("Binary", false, V::Words),
    F("Architecture", false, V::Words),
    F("Version", false, V::Version),
    F("Distribution", false, V::Word),
    F("Urgency", false, V::Urgency),
    F("Maintainer", false, V::Identity),
    F("Changed-By", false, V::Identity),
    F("Description", false, V::Description),
    F("Changes", false, V::Description),
    F("Checksums-Sha1", false, V::Sha1s),
    F("Checksums-Sha256", false, V::Sha256s),
    F("Files", false, V::Files),
];

pub const BUILDINFO: &[F] = &[
    F("Format", true, V::Word),
    F("Build-Architecture", true, V::Word),
    F("Source", true, V::Word),
    F("Binary", false, V::Words),
    F("Architecture", true, V::Words),
    F("Version", true, V::Version),
    F("Binary-Only-Changes", false, V::Description),
    F("Checksums-Sha256", true, V::Sha256s),
    F("Checksums-Sha1", true, V::Sha1s),
    F("Checksums-Md5", true, V::Md5s),
    F("Build-Origin", false, V::Word),
    F("Build-Date", false, V::Date),
    F("Build-Tainted-By", false, V::Words),
    F("Build-Path", false, V::Path),
    F("Environment", false, V::Env),
    F("Installed-Build-Depends", false, V::Rel),
];

pub const REMOVAL: &[F] = &[
    F("Date", true, V::Date),
    F("Suite", false, V::Word),
    F("Ftpmaster", true, V::Identity),
    F("Sources", false, V::Lines),
    F("Binaries", false, V::Lines),
    F("Reason", true, V::Line),
    F("Bug", false, V::UInt),
];

pub const COPYRIGHT_HEADER: &[F] = &[
    F("Format", true, V::CFormat),
    F("Files-Excluded", false, V::Globs),
    F("Source", false, V::Url),
    F("Upstream-Contact", false, V::Identity),
    F("Upstream-Name", false, V::Word),
];
pub const COPYRIGHT_FILES: &[F] = &[F("Files", true, V::Globs), F("License", true, V::License), F("Copyright", true, V::Lines), F("Comment", false, V::Line)];
pub const COPYRIGHT_LICENSE: &[F] = &[F("License", true, V::License), F("Comment", false, V::Line)];

pub const DEP3: &[F] = &[
    F("Origin", false, V::Origin),
    F("Forwarded", false, V::Forwarded),
    F("Author", false, V::Identity),
    F("Reviewed-by", false, V::Identity),
    F("Bug-Debian", false, V::Url),
    F("Last-Update", false, V::DateYmd),
    F("Applied-Upstream", false, V::Applied),
    F("Bug", false, V::Url),
    F("Description", false, V::Description),
    F("From", false, V::Identity),
    F("Subject", false, V::Line),
];

pub const APT_SOURCES: &[F] = &[
    F("Enabled", false, V::YesNo),
    F("Types", true, V::Types),
    F("URIs", true, V::Uris),
    F("Suites", true, V::Words),
    F("Components", true, V::Words),
    F("Architectures", true, V::Words),
    F("Languages", false, V::Words),
    F("Targets", false, V::Words),
    F("PDiffs", false, V::YesNo),
    F("By-Hash", false, V::YesNoForce),
    F("Allow-Insecure", false, V::BoolTF),
    F("Allow-Weak", false, V::BoolTF),
    F("Allow-Downgrade-To-Insecure", false, V::BoolTF),
    F("Trusted", false, V::BoolTF),
    F("Signed-By", false, V::SignedBy),
    F("X-Repolib-Name", false, V::Line),
    F("Description", false, V::Line),
];

pub const KINDS: &[&str] = &[
    "deb822", "relations", "relations-substvar", "control", "apt-release", "apt-source", "apt-package", "changes", "buildinfo", "removal", "copyright", "dep3",
    "apt-sources", "pgp", "vcs", "identity", "field-value",
];

fn pgp(rng: &mut Rng) -> String {
    let mut s = String::from("-----BEGIN PGP SIGNED MESSAGE-----\n");
    if rng.chance(2, 3) {
        s.push_str("Hash: SHA256\n");
    }
    s.push('\n');
    s.push_str(&para(rng, APT_RELEASE, false, false));
    s.push_str("-----BEGIN PGP SIGNATURE-----\n");
    if rng.chance(1, 2) {
        s.push('\n');
    }
    s.push_str("iQIzBAEBCAAdFiEE\n=olY7\n-----END PGP SIGNATURE-----\n");
    s
}

/// A well-formed instance of the given artefact kind.
pub fn instance(rng: &mut Rng, kind: &str) -> String {
    let comments = rng.chance(1, 4);
    let shuffle = rng.chance(1, 2);
    match kind {
        "deb822" => {
            let f = text::DocFlags::swarm(rng);
            text::doc(rng, &f)
        }
        "relations" => {
            let f = RelFlags { substvars: false, ..RelFlags::swarm(rng) };
            relations::field(rng, &f)
        }
        "relations-substvar" => {
            let f = RelFlags { substvars: true, ..RelFlags::swarm(rng) };
            relations::field(rng, &f)
        }
        "control" => {
            let mut s = para(rng, CONTROL_SOURCE, shuffle, comments);
            for _ in 0..rng.below(3) {
                s.push('\n');
                s.push_str(&para(rng, CONTROL_BINARY, shuffle, comments));
            }
            // debian/control carries substitution variables in its relationship fields
            if rng.chance(1, 3) {
                let lines: Vec<String> = s.split_inclusive('\n').map(|x| x.to_string()).collect();
                let mut out = String::new();
                for (i, l) in lines.iter().enumerate() {
                    let single = !lines.get(i + 1).map(|n| n.starts_with(' ') || n.starts_with('\t')).unwrap_or(false);
                    let rel = ["Depends: ", "Pre-Depends: ", "Recommends: ", "Suggests: ", "Build-Depends: ", "Breaks: "].iter().any(|p| l.starts_with(p));
                    if rel && single && l.ends_with('\n') && !l.trim_end().ends_with(',') && rng.chance(1, 2) {
                        let var = rng.s(&["${misc:Depends}", "${shlibs:Depends}", "${python3:Depends}"]);
                        if rng.chance(1, 2) {
                            out.push_str(&format!("{}, {var}\n", l.trim_end_matches('\n')));
                        } else {
                            let (name, val) = l.split_once(": ").unwrap();
                            out.push_str(&format!("{name}: {var}, {val}"));
                        }
                    } else {
                        out.push_str(l);
                    }
                }
                s = out;
            }
            s
        }
        "apt-release" => para(rng, APT_RELEASE, shuffle, false),
        "apt-source" => para(rng, APT_SOURCE, shuffle, false),
        "apt-package" => para(rng, APT_PACKAGE, shuffle, false),
        "changes" => para(rng, CHANGES, shuffle, false),
        "buildinfo" => para(rng, BUILDINFO, shuffle, false),
        "removal" => para(rng, REMOVAL, shuffle, false),
        "copyright" => {
            // the header comes first; its fields may stand in any order and comment lines may precede it
            let mut s = String::new();
            if rng.chance(1, 6) {
                s.push_str(rng.s(&["# machine-readable copyright file\n", "#\n# see DEP-5\n", "# c\n\n", "\n# c\n\n", "\n\n"]));
            }
            let shuffle_header = rng.chance(1, 4);
            s.push_str(&para(rng, COPYRIGHT_HEADER, shuffle_header, false));
            for _ in 0..rng.below(3) {
                s.push('\n');
                if rng.chance(2, 3) {
                    s.push_str(&para(rng, COPYRIGHT_FILES, shuffle, comments));
                } else {
                    s.push_str(&para(rng, COPYRIGHT_LICENSE, false, comments));
                }
            }
            s
        }
        "dep3" => {
            let mut s = para(rng, DEP3, shuffle, false);
            if s.is_empty() {
                s.push_str("Description: x\n");
            }
            s
        }
        "apt-sources" => {
            let mut s = para(rng, APT_SOURCES, shuffle, comments);
            for _ in 0..rng.below(2) {
                s.push('\n');
                s.push_str(&para(rng, APT_SOURCES, shuffle, comments));
            }
            s
        }
        "pgp" => pgp(rng),
        "vcs" => vcs(rng),
        "identity" => identity(rng),
        _ => {
            let kinds = [
                V::Priority, V::MultiArch, V::Urgency, V::Sha1s, V::Sha256s, V::Md5s, V::Files, V::PkgList, V::Origin, V::Forwarded, V::Applied, V::License, V::Types, V::YesNoForce,
                V::SignedBy, V::Version, V::Word,
            ];
            let k = *rng.pick(&kinds);
            let v = value(rng, k);
            v.split('\n').next().unwrap_or("").to_string()
        }
    }
}
