//! Seeded generators for deb822 text and stored-byte faults.
use crate::core::rng::Rng;

pub const NAME_POOL: &[&str] = &[
    "A", "a", "B", "A-B", "Package", "Source", "X-Foo", "Depends", "b", "Version", "C", "Description", "a_b", "Z9", "X!y", "1st", "foo.bar",
    "Vcs-Git", "Files", "Name+x",
    // ASCII magic numbers of other file formats are field names like any other
    "BZh", "PK", "MZ", "GIF89a", "ustar", "7z",
];

pub const NON_ASCII: &[&str] = &["é", "ĳ", "ß", "→", "€", "日", "本", "😀", "𝔘", "\u{a0}", "\u{2028}", "ü", "Ж", "\u{feff}", "\u{200b}", "\u{3000}", "\u{212a}", "\u{130}", "\u{1e9e}",
    // code points whose low byte is an ASCII byte the lexer cares about (LF, CR, tab, space, ':', '#', '-'): a
    // truncating cast to u8 turns them into that byte
    "\u{10a}", "\u{10d}", "\u{109}", "\u{120}", "\u{13a}", "\u{123}", "\u{12d}", "\u{a0a}", "\u{2020}", "\u{203a}",
    // the replacement character is ordinary text
    "\u{fffd}"];
const CONTROL: &[&str] = &["\u{0}", "\u{1}", "\u{7f}", "\u{b}", "\u{c}", "\u{1b}", "\u{85}"];

#[derive(Clone, Debug)]
pub struct DocFlags {
    pub comments: bool,
    pub multi_blank: bool,
    pub final_newline: bool,
    pub dups: bool,
    pub tabs: bool,
    pub non_ascii: bool,
    pub para_trailing_comment: bool,
    pub leading_trivia: bool,
    pub trailing_trivia: bool,
    pub max_paras: usize,
    pub max_fields: usize,
    pub multiline: bool,
    /// fields with nothing (or only blanks) after the colon
    pub empty_values: bool,
}

impl DocFlags {
    pub fn swarm(rng: &mut Rng) -> DocFlags {
        DocFlags {
            comments: rng.chance(1, 2),
            multi_blank: rng.chance(1, 3),
            final_newline: rng.chance(3, 4),
            dups: rng.chance(1, 3),
            tabs: rng.chance(1, 3),
            non_ascii: rng.chance(1, 3),
            para_trailing_comment: rng.chance(1, 4),
            leading_trivia: rng.chance(1, 3),
            trailing_trivia: rng.chance(1, 3),
            // one document in 80 is big (dozens of paragraphs / fields): size thresholds, quadratic paths
            max_paras: if rng.chance(1, 80) { 10 + rng.below(40) } else { 1 + rng.below(4) },
            max_fields: if rng.chance(1, 80) { 20 + rng.below(80) } else { 1 + rng.below(5) },
            multiline: rng.chance(2, 3),
            empty_values: rng.chance(1, 4),
        }
    }
    pub fn plain() -> DocFlags {
        DocFlags {
            comments: false,
            multi_blank: false,
            final_newline: true,
            dups: false,
            tabs: false,
            non_ascii: false,
            para_trailing_comment: false,
            leading_trivia: false,
            trailing_trivia: false,
            max_paras: 3,
            max_fields: 4,
            multiline: true,
            empty_values: false,
        }
    }
}

/// A valid field name: printable ASCII without ':' and space, not starting with '-' or '#'.
pub fn name(rng: &mut Rng, collide: bool) -> String {
    if collide || rng.chance(3, 4) {
        let n = if collide { 6 } else { NAME_POOL.len() };
        return NAME_POOL[rng.below(n)].to_string();
    }
    let len = 1 + rng.below(8);
    let mut s = String::new();
    for i in 0..len {
        loop {
            let c = (0x21 + rng.below(0x7e - 0x21 + 1)) as u8 as char;
            if c == ':' || (i == 0 && (c == '-' || c == '#')) {
                continue;
            }
            s.push(c);
            break;
        }
    }
    s
}

/// One non-empty value line without leading whitespace and without CR/LF.
pub fn value_line(rng: &mut Rng, non_ascii: bool, continuation: bool) -> String {
    let long = rng.chance(1, 8);
    // one line in 60 is long enough to pass any wrapping / buffering threshold
    let huge = rng.chance(1, 60);
    let len = if huge { 90 + rng.below(1500) } else { 1 + rng.below(if long { 40 } else { 9 }) };
    // one line in 4000 passes the 16-bit length mark
    if rng.chance(1, 4000) {
        let unit = if non_ascii && rng.chance(1, 3) { "xé y" } else { "ab c" };
        let mut s = String::from("g");
        let target = 65_530 + rng.below(5000);
        while s.len() < target {
            s.push_str(unit);
        }
        s.push('z');
        return s;
    }
    let mut s = String::new();
    for i in 0..len {
        let piece: String = match rng.below(12) {
            0 if i > 0 => " ".into(),
            1 if i > 0 => "\t".into(),
            2 => ":".into(),
            3 => "#".into(),
            4 if non_ascii => {
                if rng.chance(1, 25) {
                    rng.pick(&["\u{0}", "\u{1}", "\u{7f}", "\u{1b}"]).to_string()
                } else {
                    rng.pick(NON_ASCII).to_string()
                }
            }
            5 => ((b'0' + rng.below(10) as u8) as char).to_string(),
            6 => rng.pick(&[",", "(", ")", "<", ">", "=", "|", "[", "]", "$", "{", "}", ".", "-", "/", "@", "~", "+"]).to_string(),
            _ => ((b'a' + rng.below(26) as u8) as char).to_string(),
        };
        if i == 0 {
            // no leading whitespace; continuation lines must not start with '#'
            let c = piece.chars().next().unwrap();
            if c == ' ' || c == '\t' || c == '\u{a0}' || c == '\u{2028}' || (continuation && c == '#') {
                s.push('x');
                continue;
            }
        }
        s.push_str(&piece);
    }
    s
}

/// A value of 1..=3 non-empty lines joined by '\n'.
pub fn value(rng: &mut Rng, non_ascii: bool, multiline: bool) -> String {
    let n = if multiline && rng.chance(1, 3) { 2 + rng.below(2) } else { 1 };
    let mut lines = Vec::new();
    for i in 0..n {
        lines.push(value_line(rng, non_ascii, i > 0));
    }
    lines.join("\n")
}

fn comment(rng: &mut Rng, non_ascii: bool) -> String {
    let mut s = String::from("#");
    if rng.chance(2, 3) {
        s.push(' ');
        s.push_str(&value_line(rng, non_ascii, false));
    }
    s.push('\n');
    s
}

fn field(rng: &mut Rng, f: &DocFlags, used: &mut Vec<String>) -> String {
    let mut n = name(rng, false);
    if !f.dups {
        let mut tries = 0;
        while used.contains(&n) && tries < 20 {
            n = name(rng, false);
            tries += 1;
        }
        if used.contains(&n) {
            n = format!("{}{}", n, used.len());
        }
    }
    used.push(n.clone());
    let ws = if f.tabs { *rng.pick(&[" ", "  ", "\t", " \t", "", " "]) } else { *rng.pick(&[" ", " ", " ", "  ", ""]) };
    if f.empty_values && rng.chance(1, 3) {
        // "Recommends:" / "Recommends: " — a field that is present but empty
        return format!("{n}:{}\n", rng.s(&["", " ", "  ", "\t"]));
    }
    let v = value(rng, f.non_ascii, f.multiline);
    let mut out = String::new();
    out.push_str(&n);
    // blanks between the name and the colon are accepted by the reader
    if rng.chance(1, 30) {
        out.push_str(rng.s(&[" ", "\t", "  "]));
    }
    out.push(':');
    for (i, line) in v.split('\n').enumerate() {
        if i == 0 {
            out.push_str(ws);
        } else {
            let ind = if f.tabs { *rng.pick(&[" ", "  ", "\t", "    ", " \t"]) } else { *rng.pick(&[" ", " ", "  ", "    "]) };
            out.push_str(ind);
        }
        out.push_str(line);
        out.push('\n');
    }
    out
}

fn paragraph(rng: &mut Rng, f: &DocFlags) -> String {
    let nf = 1 + rng.below(f.max_fields);
    let mut out = String::new();
    let mut used = Vec::new();
    for _ in 0..nf {
        if f.comments && rng.chance(1, 4) {
            out.push_str(&comment(rng, f.non_ascii));
        }
        out.push_str(&field(rng, f, &mut used));
    }
    if f.comments && f.para_trailing_comment && rng.chance(1, 2) {
        out.push_str(&comment(rng, f.non_ascii));
    }
    out
}

fn blanks(rng: &mut Rng, f: &DocFlags) -> String {
    if f.multi_blank {
        "\n".repeat(1 + rng.below(3))
    } else {
        "\n".to_string()
    }
}

fn trivia(rng: &mut Rng, f: &DocFlags) -> String {
    // comment block followed by blank line(s): top-level trivia
    let mut out = String::new();
    for _ in 0..1 + rng.below(2) {
        out.push_str(&comment(rng, f.non_ascii));
    }
    out.push_str(&blanks(rng, f));
    out
}

/// Well-formed deb822 document per DESIGN Appendix D.
pub fn doc(rng: &mut Rng, f: &DocFlags) -> String {
    let np = rng.below(f.max_paras + 1);
    let mut out = String::new();
    if f.leading_trivia && f.comments {
        out.push_str(&trivia(rng, f));
    } else if f.leading_trivia && f.multi_blank {
        out.push_str(&blanks(rng, f));
    }
    for i in 0..np {
        if i > 0 {
            out.push_str(&blanks(rng, f));
            if f.comments && rng.chance(1, 4) {
                out.push_str(&trivia(rng, f));
            }
        }
        out.push_str(&paragraph(rng, f));
    }
    if f.trailing_trivia && np > 0 {
        out.push_str(&blanks(rng, f));
        if f.comments && rng.chance(1, 2) {
            out.push_str(&comment(rng, f.non_ascii));
        }
    }
    if !f.final_newline && out.ends_with('\n') {
        out.pop();
    } else if out.ends_with('\n') && rng.chance(1, 40) {
        // a CR ends a line as well: the last line is terminated, just not by LF
        out.pop();
        out.push('\r');
    }
    out
}

/// Lexer-oriented character classes of C01's quantifier.
pub const CLASSES: &[&str] = &["key", "dash", "colon", "hash", "space", "tab", "lf", "cr", "multibyte", "control"];

pub fn class_char(rng: &mut Rng, class: usize) -> String {
    match class {
        0 => ((b'a' + rng.below(26) as u8) as char).to_string(),
        1 => "-".into(),
        2 => ":".into(),
        3 => "#".into(),
        4 => " ".into(),
        5 => "\t".into(),
        6 => "\n".into(),
        7 => "\r".into(),
        8 => rng.pick(NON_ASCII).to_string(),
        _ => rng.pick(CONTROL).to_string(),
    }
}

/// A string composed class by class, with per-run class weights (swarm).
pub fn class_string(rng: &mut Rng, max_len: usize) -> String {
    let len = rng.below(max_len + 1);
    let mut w = [0u32; 10];
    for x in w.iter_mut() {
        *x = if rng.chance(1, 4) { 0 } else { 1 + rng.below(8) as u32 };
    }
    w[0] += 1;
    let mut s = String::new();
    for _ in 0..len {
        let c = rng.weighted(&w);
        s.push_str(&class_char(rng, c));
    }
    s
}

/// Classify a char for reach accounting.
pub fn class_of(c: char) -> usize {
    match c {
        '-' => 1,
        ':' => 2,
        '#' => 3,
        ' ' => 4,
        '\t' => 5,
        '\n' => 6,
        '\r' => 7,
        c if !c.is_ascii() => 8,
        c if c.is_ascii_control() => 9,
        _ => 0,
    }
}

/// (lexer-state x class) pairs met in `s`: state = (start_of_line, colon_seen, indented).
pub fn state_class_pairs(s: &str) -> Vec<u8> {
    let mut out = Vec::new();
    let (mut sol, mut colon, mut indented) = (true, false, false);
    for c in s.chars() {
        let cl = class_of(c);
        let st = (sol as u8) | ((colon as u8) << 1) | ((indented as u8) << 2);
        out.push(st * 10 + cl as u8);
        match c {
            '\n' | '\r' => {
                sol = true;
                colon = false;
                indented = false;
            }
            ' ' | '\t' if sol => {
                indented = true;
            }
            ':' => {
                colon = true;
                sol = false;
            }
            _ => {
                sol = false;
            }
        }
    }
    out
}

// ------------------------------------------------------------ stored-byte faults (string level: result stays valid UTF-8)

pub const HOSTILE: &[&str] = &[
    ":", "#", "-", " ", "\t", "\n", "\r", "\r\n", "é", "日", "😀", "\u{0}", "\u{7f}", ",", "|", "(", ")", "[", "]", "<", ">", "$", "{", "}", "=", "!",
    // Unicode blanks and invisibles of every UTF-8 length: what \s, trim() and char::is_whitespace see differently from b' '
    "\u{a0}", "\u{85}", "\u{2028}", "\u{3000}", "\u{2003}", "\u{feff}", "\u{200b}", "\u{c}", "\u{b}",
    // characters whose lower/upper-case mapping has a different UTF-8 length (byte offsets computed on a
    // case-folded copy do not fit the original)
    "\u{212a}", "\u{130}", "\u{1e9e}", "\u{2126}", "\u{23a}", "\u{df}", "\u{149}", "\u{fb01}",
    // low byte = LF, CR, tab, space, ':', '#', '-'
    "\u{10a}", "\u{10d}", "\u{109}", "\u{120}", "\u{13a}", "\u{123}", "\u{12d}", "\u{200a}",
    // the rest of ASCII punctuation (quotes, escapes, wildcards)
    "\"", "'", "\\", "`", "%", "&", ";", "*", "?", "@", "^", "~", "+", "/", ".", "_",
];

fn char_starts(s: &str) -> Vec<usize> {
    let mut v: Vec<usize> = s.char_indices().map(|x| x.0).collect();
    v.push(s.len());
    v
}

/// Positions that sit inside constructs (just after / before delimiters, line starts) are preferred.
fn biased_pos(rng: &mut Rng, s: &str) -> usize {
    let starts = char_starts(s);
    if rng.chance(1, 2) {
        let interesting: Vec<usize> = s
            .char_indices()
            .filter(|(_, c)| matches!(c, ':' | '\n' | '#' | ' ' | '(' | '[' | '<' | '{' | '$' | ',' | '|' | '-' | '=' | '"' | ')' | ']' | '>' | '}'))
            .flat_map(|(i, c)| [i, i + c.len_utf8()])
            .collect();
        if !interesting.is_empty() {
            return *rng.pick(&interesting);
        }
    }
    *rng.pick(&starts)
}

/// Apply one storage/transport fault that keeps the text valid UTF-8. Returns the fault kind.
pub fn text_fault(rng: &mut Rng, s: &mut String) -> &'static str {
    let kind = rng.below(16);
    let lines: Vec<String> = s.split_inclusive('\n').map(|l| l.to_string()).collect();
    match kind {
        15 => {
            // blanks in front of everything (offsets computed on a trimmed copy do not fit the original)
            s.insert_str(0, rng.s(&[" ", "\t", "  ", " \u{a0}"]));
            "leading_blank"
        }
        14 if lines.len() > 2 => {
            // a run of lines delivered in reverse order (an END marker before its BEGIN, a continuation before its field)
            let n = 2 + rng.below(5.min(lines.len() - 1));
            let st = rng.below(lines.len() - n + 1);
            let mut v = lines.clone();
            v[st..st + n].reverse();
            *s = v.concat();
            "reverse_lines"
        }
        13 if s.chars().any(|c| !c.is_whitespace()) => {
            // one word lost, the blanks around it stay ("-b  [sub]", "a (>= ) b", "Field:  \n")
            let chars: Vec<(usize, char)> = s.char_indices().collect();
            let starts: Vec<usize> = (0..chars.len()).filter(|i| !chars[*i].1.is_whitespace() && (*i == 0 || chars[*i - 1].1.is_whitespace())).collect();
            let st = starts[rng.below(starts.len())];
            let mut en = st;
            while en < chars.len() && !chars[en].1.is_whitespace() {
                en += 1;
            }
            let b0 = chars[st].0;
            let b1 = if en < chars.len() { chars[en].0 } else { s.len() };
            s.replace_range(b0..b1, "");
            "drop_word"
        }
        12 if lines.iter().any(|l| l.contains(": ")) => {
            // a field value replaced by a number, from one digit to far beyond any machine integer
            let cands: Vec<usize> = (0..lines.len()).filter(|i| lines[*i].contains(": ")).collect();
            let i = cands[rng.below(cands.len())];
            let n = *rng.pick(&[1usize, 5, 9, 10, 11, 19, 20, 21, 40]);
            let mut digits: String = (0..n).map(|k| if k == 0 { (b'1' + rng.below(9) as u8) as char } else { (b'0' + rng.below(10) as u8) as char }).collect();
            if rng.chance(1, 6) {
                digits.insert_str(0, rng.s(&["-", "+", "0", "00000000000000000000"]));
            }
            let mut v = lines.clone();
            let name = v[i].split(": ").next().unwrap_or("X").to_string();
            v[i] = format!("{name}: {digits}{}", if v[i].ends_with('\n') { "\n" } else { "" });
            *s = v.concat();
            "digits_value"
        }
        0 => {
            let p = biased_pos(rng, s);
            s.truncate(p);
            "truncate"
        }
        1 if lines.len() > 1 => {
            let i = rng.below(lines.len());
            *s = lines.iter().enumerate().filter(|(j, _)| *j != i).map(|(_, l)| l.as_str()).collect();
            "drop_line"
        }
        2 if !lines.is_empty() => {
            let i = rng.below(lines.len());
            let mut v = lines.clone();
            v.insert(i, lines[i].clone());
            *s = v.concat();
            "dup_line"
        }
        3 if lines.len() > 1 => {
            let i = rng.below(lines.len() - 1);
            let mut v = lines.clone();
            v.swap(i, i + 1);
            *s = v.concat();
            "swap_lines"
        }
        4 | 5 => {
            // replace one character by a hostile one
            let starts = char_starts(s);
            if starts.len() > 1 {
                let p = biased_pos(rng, s).min(s.len());
                let idx = starts.iter().position(|x| *x >= p).unwrap_or(0).min(starts.len() - 2);
                let (a, b) = (starts[idx], starts[idx + 1]);
                let h = *rng.pick(HOSTILE);
                s.replace_range(a..b, h);
            }
            "hostile_char"
        }
        6 => {
            let p = biased_pos(rng, s);
            let h = *rng.pick(HOSTILE);
            s.insert_str(p, h);
            "insert_char"
        }
        7 => {
            *s = s.replace('\n', "\r\n");
            "crlf"
        }
        11 if !lines.is_empty() => {
            // the tail of one line is lost (short write of a line): the line is cut somewhere inside, its terminator stays
            let i = rng.below(lines.len());
            let l = &lines[i];
            let body = l.strip_suffix('\n').unwrap_or(l);
            let starts: Vec<usize> = body.char_indices().map(|x| x.0).filter(|x| *x > 0).collect();
            if !starts.is_empty() {
                // prefer cutting right after a delimiter
                let after_delim: Vec<usize> = body.char_indices().filter(|(_, c)| matches!(c, '=' | '"' | ':' | '(' | '[' | '<' | ' ' | ',' | '|')).map(|(i, c)| i + c.len_utf8()).filter(|x| *x < body.len()).collect();
                let cut = if !after_delim.is_empty() && rng.chance(2, 3) { *rng.pick(&after_delim) } else { *rng.pick(&starts) };
                let mut v = lines.clone();
                v[i] = format!("{}{}", &body[..cut], if l.ends_with('\n') { "\n" } else { "" });
                *s = v.concat();
            }
            "line_tail_lost"
        }
        10 => {
            // a long run of one delimiter (stack depth / quadratic behaviour probe)
            let p = biased_pos(rng, s);
            let unit = rng.s(&["[", "<", "(", ",", "|", "$", "{", "${", "\n ", "\n#", ":", " ", "!", "a,", "a|", "<a>", "(>=", "\r"]);
            let big = rng.chance(1, 4);
            let n = 50 + rng.below(if big { 4000 } else { 300 });
            s.insert_str(p, &unit.repeat(n));
            "long_run"
        }
        8 => {
            s.push_str(rng.s(&["\n", "junk", "junk\n", "\n\n# x", " ", ":", "-----END PGP SIGNATURE-----\n", "\u{0}", "A: b", " cont"]));
            "junk_tail"
        }
        _ => {
            if s.ends_with('\n') {
                s.pop();
                "strip_final_newline"
            } else {
                let p = biased_pos(rng, s);
                s.truncate(p);
                "truncate"
            }
        }
    }
}

/// Flip / replace one byte so that the result is (very likely) invalid UTF-8.
pub fn byte_flip(rng: &mut Rng, b: &mut Vec<u8>) {
    if b.is_empty() {
        b.push(0xff);
        return;
    }
    let i = rng.below(b.len());
    b[i] = *rng.pick(&[0xffu8, 0xc3, 0x80, 0xe2, 0xf0, 0xbf]);
}

/// Shrink candidates for a text: drop halves, drop lines, drop single characters, simplify characters.
pub fn shrink_text(s: &str) -> Vec<String> {
    let mut out: Vec<String> = Vec::new();
    if s.is_empty() {
        return out;
    }
    let chars: Vec<char> = s.chars().collect();
    let n = chars.len();
    if n > 1 {
        out.push(chars[..n / 2].iter().collect());
        out.push(chars[n / 2..].iter().collect());
    }
    let lines: Vec<&str> = s.split_inclusive('\n').collect();
    if lines.len() > 1 && lines.len() <= 60 {
        for i in 0..lines.len() {
            out.push(lines.iter().enumerate().filter(|(j, _)| *j != i).map(|(_, l)| *l).collect());
        }
    }
    if n <= 80 {
        for i in 0..n {
            let mut c = chars.clone();
            c.remove(i);
            out.push(c.into_iter().collect());
        }
        for i in 0..n {
            let c = chars[i];
            if !c.is_ascii() || (c.is_ascii_alphanumeric() && c != 'a') {
                let mut d = chars.clone();
                d[i] = 'a';
                out.push(d.into_iter().collect());
            }
        }
    } else {
        // drop chunks of 1/8
        let step = (n / 8).max(1);
        let mut i = 0;
        while i < n {
            let mut c: Vec<char> = chars[..i].to_vec();
            c.extend_from_slice(&chars[(i + step).min(n)..]);
            out.push(c.into_iter().collect());
            i += step;
        }
    }
    out.retain(|x| x != s);
    out
}
