pub mod c01_load;
pub mod c19_pgp;
pub mod c02_total;
