pub mod c01_load;
pub mod c19_pgp;
pub mod c02_total;
pub mod c04_c05_session;
pub mod c08_lossy;
pub mod c18_codecs;
pub mod c20_cycles;
pub mod c15_views;
