//! C04 / C05 — editing sessions over one shared lossless tree: several clients hold paragraph
//! handles acquired at different times, field edits and paragraph-level edits interleave, the
//! document is persisted and re-read ("restart") at scheduled points. One engine, two verdicts:
//! a violation is attributed to C04 when the last mutating step was a field edit and to C05 when
//! it was a paragraph-level edit.
use crate::core::driver::{key_of, Obs, Scenario, Tier, Violation};
use crate::core::io::{gen_read_plan, ReadPlan, SimReader};
use crate::core::probe;
use crate::core::rng::Rng;
use crate::gen::text;
use crate::model::deb822::Model;
use crate::model::segmenter::{self, Flat};
use deb822_lossless::{Deb822, Paragraph};
use serde::{Deserialize, Serialize};
use serde_json::{json, Value};
use std::collections::BTreeMap;
use std::str::FromStr;

#[derive(Clone, Debug, Serialize, Deserialize)]
#[serde(tag = "kind", rename_all = "snake_case")]
pub enum Init {
    Parse { text: String },
    Build { paras: Vec<Vec<(String, String)>> },
    /// paragraphs parsed one by one with Paragraph::from_str (each text holds one paragraph, possibly
    /// without final newline) and collected into a document with FromIterator<Paragraph>
    Collect { texts: Vec<String> },
    /// parsed, then rebuilt by wrap_and_sort (a programmatically built tree with reformatted values)
    Rebuilt { text: String, indent: u32, sort: bool },
    Empty,
}

#[derive(Clone, Debug, Serialize, Deserialize)]
#[serde(tag = "op", rename_all = "snake_case")]
pub enum Ev {
    Acquire { client: u8, index: usize, out: usize },
    DropHandle { handle: usize },
    Set {
        handle: usize,
        name: String,
        value: String,
        /// go through convert::Deb822LikeParagraph instead of the inherent method
        #[serde(default)]
        via_trait: bool,
    },
    Insert { handle: usize, name: String, value: String },
    Remove {
        handle: usize,
        name: String,
        #[serde(default)]
        via_trait: bool,
    },
    Rename { handle: usize, old: String, new: String },
    Observe { handle: usize, name: String },
    AddPara { client: u8, out: usize },
    InsertPara { client: u8, index: usize, out: usize },
    RemovePara { index: usize },
    Restart { plan: ReadPlan },
}

impl Ev {
    fn kind(&self) -> &'static str {
        match self {
            Ev::Acquire { .. } => "acquire",
            Ev::DropHandle { .. } => "drop_handle",
            Ev::Set { .. } => "set",
            Ev::Insert { .. } => "insert",
            Ev::Remove { .. } => "remove",
            Ev::Rename { .. } => "rename",
            Ev::Observe { .. } => "observe",
            Ev::AddPara { .. } => "add_paragraph",
            Ev::InsertPara { .. } => "insert_paragraph",
            Ev::RemovePara { .. } => "remove_paragraph",
            Ev::Restart { .. } => "restart",
        }
    }
    fn is_para_op(&self) -> bool {
        matches!(self, Ev::AddPara { .. } | Ev::InsertPara { .. } | Ev::RemovePara { .. })
    }
    fn is_field_op(&self) -> bool {
        matches!(self, Ev::Set { .. } | Ev::Insert { .. } | Ev::Remove { .. } | Ev::Rename { .. })
    }
}

#[derive(Clone, Debug, Serialize, Deserialize)]
pub struct Case {
    pub init: Init,
    pub events: Vec<Ev>,
}

struct Handle {
    para: u32,
    node: Paragraph,
    #[allow(dead_code)]
    client: u8,
}

struct Live {
    doc: Deb822,
    model: Model,
    handles: BTreeMap<usize, Handle>,
    built: bool,
}

/// Which property owns a failure: decided by the last mutating step.
#[derive(Clone, Copy, PartialEq)]
enum Owner {
    C04,
    C05,
}
impl Owner {
    fn id(self) -> &'static str {
        match self {
            Owner::C04 => "C04",
            Owner::C05 => "C05",
        }
    }
}

struct Fail {
    /// C05 also owns this failure (paragraph separation broke after a paragraph-level edit earlier in this epoch)
    also_c05: bool,
    owner: Owner,
    clause: &'static str,
    op: String,
    pre: String,
    detail: String,
}

fn items_of(p: &Paragraph) -> Vec<(String, String)> {
    p.items().collect()
}

fn init_live(init: &Init) -> Result<Live, String> {
    match init {
        Init::Parse { text } => {
            let doc = Deb822::from_str(text).map_err(|e| format!("initial text does not parse strictly: {e}"))?;
            let ps: Vec<Vec<(String, String)>> = doc.paragraphs().map(|p| items_of(&p)).collect();
            // the initial model comes from the independent reference segmenter; disagreement with the
            // implementation's reading is C03's business, such a start state is skipped
            let seg = segmenter::segment(text).ok_or("initial text not segmentable")?;
            if segmenter::paragraphs(&seg) != ps {
                return Err("reference reading of the initial text differs from the implementation's (C03 territory)".into());
            }
            Ok(Live { doc, model: Model::from_paragraphs(ps), handles: BTreeMap::new(), built: false })
        }
        Init::Build { paras } => {
            let doc: Deb822 = paras.iter().map(|p| p.iter().map(|(k, v)| (k.clone(), v.clone())).collect::<Paragraph>()).collect();
            Ok(Live { doc, model: Model::from_paragraphs(paras.clone()), handles: BTreeMap::new(), built: true })
        }
        Init::Collect { texts } => {
            let mut ps = Vec::new();
            let mut model = Vec::new();
            for t in texts {
                let p = Paragraph::from_str(t).map_err(|e| format!("paragraph text does not parse strictly: {e}"))?;
                let seg = segmenter::segment(t).ok_or("paragraph text not segmentable")?;
                let want = segmenter::paragraphs(&seg);
                if want.len() != 1 || want[0] != items_of(&p) {
                    return Err("reference reading of the paragraph text differs from the implementation's (C03 territory)".into());
                }
                model.push(want[0].clone());
                ps.push(p);
            }
            let doc: Deb822 = ps.into_iter().collect();
            Ok(Live { doc, model: Model::from_paragraphs(model), handles: BTreeMap::new(), built: true })
        }
        Init::Rebuilt { text, indent, sort } => {
            if text.lines().any(|l| l.starts_with('#')) {
                return Err("rebuilt start states are limited to comment-free documents".into());
            }
            let parsed = Deb822::from_str(text).map_err(|e| format!("initial text does not parse strictly: {e}"))?;
            let ind = deb822_lossless::Indentation::Spaces((*indent).max(1));
            let by_name = |a: &deb822_lossless::lossless::Entry, b: &deb822_lossless::lossless::Entry| a.key().cmp(&b.key());
            let wrap = |p: &Paragraph| -> Paragraph {
                if *sort {
                    p.wrap_and_sort(ind, false, None, Some(&by_name), None)
                } else {
                    p.wrap_and_sort(ind, false, None, None, None)
                }
            };
            let doc = parsed.wrap_and_sort(None, Some(&wrap));
            let t = doc.to_string();
            let ps: Vec<Vec<(String, String)>> = doc.paragraphs().map(|p| items_of(&p)).collect();
            let seg = segmenter::segment(&t).ok_or("rebuilt text not segmentable")?;
            if segmenter::paragraphs(&seg) != ps {
                return Err("reference reading of the rebuilt text differs from the implementation's (C03/C07 territory)".into());
            }
            Ok(Live { doc, model: Model::from_paragraphs(ps), handles: BTreeMap::new(), built: true })
        }
        Init::Empty => Ok(Live { doc: Deb822::new(), model: Model::default(), handles: BTreeMap::new(), built: true }),
    }
}

fn check_model(l: &Live) -> Result<(), (&'static str, String)> {
    let real: Vec<Vec<(String, String)>> = l.doc.paragraphs().map(|p| items_of(&p)).collect();
    let want = l.model.doc_fields();
    if real != want {
        return Err(("model-content", format!("document reports {:?}, list model says {:?}", real, want)));
    }
    for (h, hd) in &l.handles {
        let got = items_of(&hd.node);
        let want = l.model.fields(hd.para);
        if &got != want {
            return Err((
                "model-handle",
                format!("handle h{h} (paragraph #{}, {}) reports {:?}, list model says {:?}", hd.para, if l.model.attached(hd.para) { "attached" } else { "orphan" }, got, want),
            ));
        }
    }
    Ok(())
}

/// The printed document must re-read, strictly, to what the live object reports.
fn check_reread(l: &Live, text: &str) -> Result<(), (&'static str, String)> {
    let want = l.model.nonempty_doc_fields();
    match Deb822::from_str(text) {
        Err(e) => Err(("restart-error", format!("printed document {:?} does not re-read: {}", text, e.to_string().trim()))),
        Ok(d) => {
            let got: Vec<Vec<(String, String)>> = d.paragraphs().map(|p| items_of(&p)).collect();
            if got.len() != want.len() {
                return Err(("restart-paragraphs", format!("printed document {:?} re-reads as {} paragraphs {:?}, live object has {:?}", text, got.len(), got, want)));
            }
            if got != want {
                return Err(("restart-content", format!("printed document {:?} re-reads as {:?}, live object has {:?}", text, got, want)));
            }
            Ok(())
        }
    }
}

fn same_text(b: &Flat, a: &Flat) -> bool {
    b.kind == a.kind && (b.text == a.text || (!b.text.ends_with(['\n', '\r']) && a.text.len() == b.text.len() + 1 && a.text.starts_with(&b.text) && a.text.ends_with('\n')))
}

/// `allow_gain`: an unterminated last line may gain its newline — only when the edit put something after it.
/// `gain`: where an unterminated line may gain its newline — `Some(None)` anywhere (paragraph-level appends),
/// `Some(Some(i))` only at untouched segment `i` (the line a field was appended after), `None` nowhere.
fn seq_equal(b: &[&Flat], a: &[&Flat], gain: Option<Option<usize>>) -> Result<(), String> {
    if b.len() != a.len() {
        return Err(format!("{} untouched segments before, {} after", b.len(), a.len()));
    }
    for (i, (x, y)) in b.iter().zip(a.iter()).enumerate() {
        let allow_gain = match gain {
            None => false,
            Some(None) => true,
            Some(Some(at)) => at == i,
        };
        if !(if allow_gain { same_text(x, y) } else { x.kind == y.kind && x.text == y.text }) {
            return Err(format!("untouched segment {:?} became {:?}", x.text, y.text));
        }
    }
    Ok(())
}

pub enum FieldOp<'a> {
    Replace { name: &'a str, new_name: &'a str, value: &'a str },
    Append { name: &'a str, value: &'a str },
    Remove { name: &'a str },
    Nothing,
}

/// Locality for a field edit on an attached paragraph. `ord_before`/`ord_after`: text ordinal of
/// the paragraph among the non-empty ones before and after the edit.
pub fn locality_field(before: &str, after: &str, ord_before: Option<usize>, ord_after: Option<usize>, op: &FieldOp, obs: &mut Obs) -> Result<(), String> {
    let (sb, sa) = match (segmenter::segment(before), segmenter::segment(after)) {
        (Some(b), Some(a)) => (b, a),
        _ => {
            obs.count("locality_skipped_unsegmentable");
            return Ok(());
        }
    };
    let b = segmenter::flatten(&sb);
    let a = segmenter::flatten(&sa);
    let mut touched_b: Vec<usize> = vec![];
    let mut touched_a: Vec<usize> = vec![];
    match op {
        FieldOp::Nothing => {}
        FieldOp::Replace { name, new_name, value } => {
            let ob = ord_before.ok_or("replace on a paragraph without text")?;
            let ib = b.iter().position(|f| f.para == Some(ob) && f.kind == 'e' && f.name == *name).ok_or_else(|| format!("field {name} not found in the text before"))?;
            touched_b.push(ib);
            let fa = a.get(ib).ok_or("text after is shorter than the touched position")?;
            if fa.kind != 'e' || fa.name != *new_name || fa.value != *value {
                return Err(format!("segment at the touched position is {:?}, expected field {}={:?}", fa.text, new_name, value));
            }
            touched_a.push(ib);
        }
        FieldOp::Append { name, value } => {
            let oa = ord_after.ok_or("append left the paragraph without text")?;
            let ia = a.iter().rposition(|f| f.para == Some(oa) && f.kind == 'e').ok_or("no field in the target paragraph after append")?;
            let fa = &a[ia];
            if fa.name != *name || fa.value != *value {
                return Err(format!("last field of the target paragraph is {:?}, expected appended field {}={:?}", fa.text, name, value));
            }
            touched_a.push(ia);
        }
        FieldOp::Remove { name } => {
            if let Some(ob) = ord_before {
                for (i, f) in b.iter().enumerate() {
                    if f.para == Some(ob) && f.kind == 'e' && f.name == *name {
                        touched_b.push(i);
                    }
                }
            }
        }
    }
    let ob: Vec<&Flat> = b.iter().enumerate().filter(|(i, _)| !touched_b.contains(i)).map(|x| x.1).collect();
    let oa: Vec<&Flat> = a.iter().enumerate().filter(|(i, _)| !touched_a.contains(i)).map(|x| x.1).collect();
    // an appended field may terminate the line it was put after, and only that line
    let gain = match (op, touched_a.first()) {
        (FieldOp::Append { .. }, Some(ia)) if *ia > 0 => Some(Some(*ia - 1)),
        _ => None,
    };
    seq_equal(&ob, &oa, gain)
}

/// Locality for paragraph-level edits: every other paragraph's text and every comment byte-identical
/// and in order; `removed_ord` = text ordinal of a removed (non-empty) paragraph. Comment lines that
/// sit in the same run of non-blank lines as the removed paragraph may go with it (in the tree they
/// can be inside the paragraph node); when the removed paragraph has no fields, one comment-only run
/// may go with it for the same reason.
fn locality_para(before: &str, after: &str, removing: bool, removed_ord: Option<usize>, obs: &mut Obs) -> Result<(), String> {
    let (sb, sa) = match (segmenter::segment(before), segmenter::segment(after)) {
        (Some(b), Some(a)) => (b, a),
        _ => {
            obs.count("locality_skipped_unsegmentable");
            return Ok(());
        }
    };
    let b = segmenter::flatten(&sb);
    let a = segmenter::flatten(&sa);
    // which sets of lines may disappear
    let mut variants: Vec<Vec<usize>> = Vec::new();
    let own: Vec<usize> = b.iter().enumerate().filter(|(_, f)| removed_ord.is_some() && f.para == removed_ord).map(|x| x.0).collect();
    variants.push(own.clone());
    if removing {
        if removed_ord.is_some() {
            // any suffix of the comment lines that directly precede the paragraph in its run
            if let Some(first) = own.first().cloned() {
                let mut k = first;
                let mut v = own.clone();
                while k > 0 && b[k - 1].kind == 'c' && b[k - 1].para.is_none() && b[k - 1].run == b[first].run {
                    k -= 1;
                    v.push(k);
                    variants.push(v.clone());
                }
            }
        } else {
            // the removed paragraph has no fields: any contiguous block of comment lines may have been inside it
            let idx: Vec<usize> = (0..b.len()).filter(|i| b[*i].kind == 'c').collect();
            for (x, &i) in idx.iter().enumerate() {
                let mut v = vec![i];
                variants.push(v.clone());
                for &j in &idx[x + 1..] {
                    if j != *v.last().unwrap() + 1 {
                        break;
                    }
                    v.push(j);
                    variants.push(v.clone());
                }
            }
        }
    }
    let mut last_err = String::new();
    for gone in &variants {
        let r = (|| -> Result<(), String> {
            let nb: Vec<&Flat> = b.iter().enumerate().filter(|(i, f)| f.kind != 'b' && !gone.contains(i)).map(|x| x.1).collect();
            let na: Vec<&Flat> = a.iter().filter(|f| f.kind != 'b').collect();
            seq_equal(&nb, &na, Some(None))?;
            // blank lines may only change next to the inserted / removed paragraph: everything before
            // the first change and after the last change lines up, the changed region is blank lines only
            let bt: Vec<&Flat> = b.iter().enumerate().filter(|(i, _)| !gone.contains(i)).map(|x| x.1).collect();
            let at: Vec<&Flat> = a.iter().collect();
            let mut i = 0;
            while i < bt.len() && i < at.len() && same_text(bt[i], at[i]) {
                i += 1;
            }
            let mut j = 0;
            while j < bt.len() - i && j < at.len() - i && same_text(bt[bt.len() - 1 - j], at[at.len() - 1 - j]) {
                j += 1;
            }
            let mid_b = &bt[i..bt.len() - j];
            let mid_a = &at[i..at.len() - j];
            if mid_b.iter().any(|f| f.kind != 'b') || mid_a.iter().any(|f| f.kind != 'b') {
                return Err(format!("blank lines changed in more than one place: {:?} -> {:?}", before, after));
            }
            Ok(())
        })();
        match r {
            Ok(()) => return Ok(()),
            Err(e) => last_err = e,
        }
    }
    Err(last_err)
}

fn last_text_para(m: &Model) -> Option<u32> {
    m.doc.iter().rev().find(|id| !m.paras[id].is_empty()).cloned()
}

fn para_ends_in_comment(text: &str, ord: Option<usize>) -> bool {
    if let (Some(o), Some(seg)) = (ord, segmenter::segment(text)) {
        let mut k = 0;
        for t in &seg {
            if let segmenter::Top::Para(ps) = t {
                if k == o {
                    return matches!(ps.last(), Some(segmenter::PSeg::Comment(_)));
                }
                k += 1;
            }
        }
    }
    false
}

fn prestate_field(l: &Live, para: u32, name: &str, text: &str) -> String {
    let mut p: Vec<&str> = Vec::new();
    let f = l.model.fields(para);
    let n = f.iter().filter(|e| e.0 == name).count();
    if !l.model.attached(para) {
        p.push("handle-orphan");
    }
    if f.is_empty() {
        p.push("para-empty");
    }
    if l.model.attached(para) && !text.is_empty() && !text.ends_with(['\n', '\r']) && last_text_para(&l.model) == Some(para) {
        p.push("last-line-unterminated");
    }
    if l.model.attached(para) && para_ends_in_comment(text, l.model.text_ordinal(para)) {
        p.push("paragraph-ends-in-comment");
    }
    if n > 1 {
        p.push("target-has-duplicates");
    }
    p.truncate(2);
    if p.is_empty() {
        p.push(if n == 0 { "target-absent" } else { "target-present" });
    }
    p.join("+")
}

fn prestate_para(l: &Live, index: Option<usize>, text: &str) -> String {
    let mut p: Vec<String> = Vec::new();
    if l.model.doc.is_empty() {
        p.push("doc-empty".into());
    }
    if text.starts_with('#') {
        p.push("leading-comment-block".into());
    }
    if !text.is_empty() && !text.ends_with(['\n', '\r']) {
        p.push("no-final-newline".into());
    }
    if l.model.doc.iter().any(|id| l.model.paras[id].is_empty()) {
        p.push("has-empty-paragraph".into());
    }
    if let Some(i) = index {
        let n = l.model.doc.len();
        p.push(if i >= n { "index-out-of-range".into() } else if i == 0 { "index-0".into() } else if i + 1 == n { "index-last".into() } else { "index-mid".into() });
    }
    p.truncate(2);
    if p.is_empty() {
        p.push("plain".into());
    }
    p.join("+")
}

fn run_session(c: &Case, obs: &mut Obs, para_epoch: &mut bool) -> Result<(), Fail> {
    probe::at("init");
    let mut l = match init_live(&c.init) {
        Ok(l) => l,
        Err(why) => {
            obs.count("reach.init_skipped");
            obs.count(&format!("init_skipped.{}", why.split(':').next().unwrap_or("?").replace(' ', "_")));
            if std::env::var("DESKSET_DEBUG").is_ok() {
                eprintln!("INIT-SKIPPED {why}: {:?}", c.init);
            }
            return Ok(());
        }
    };
    // a second live document on the same thread, edited once before the session: whatever the session does to its
    // own document, this one must not move (state shared between documents through statics or thread-locals)
    let bystander = Deb822::from_str("Section: net\nPriority: optional").ok();
    if let Some(b) = &bystander {
        if let Some(mut p) = b.paragraphs().next() {
            p.set("Zz", "1");
        }
    }
    let bystander_text = bystander.as_ref().map(|b| b.to_string());
    let mut last_owner = Owner::C04;
    let mut last_op = "init".to_string();
    let mut last_pre = "init".to_string();
    let mut mutated = false;
    let mut aliased = false;
    // the initial state must already satisfy the model (by construction for Parse; Build checks FromIterator)
    if let Err((cl, d)) = check_model(&l) {
        return Err(Fail { also_c05: false, owner: Owner::C04, clause: cl, op: "init".into(), pre: "built".into(), detail: d });
    }
    if l.built {
        let t = l.doc.to_string();
        if let Err((cl, d)) = check_reread(&l, &t) {
            return Err(Fail { also_c05: false, owner: Owner::C05, clause: cl, op: "from_iter".into(), pre: "built".into(), detail: d });
        }
    }
    for (seq, ev) in c.events.iter().enumerate() {
        obs.step();
        let before = l.doc.to_string();
        let kind = ev.kind();
        obs.count(&format!("op.{kind}"));
        match ev {
            Ev::Acquire { client, index, out } => {
                probe::at("paragraphs().nth");
                let got = l.doc.paragraphs().nth(*index);
                match (got, l.model.doc.get(*index)) {
                    (Some(p), Some(id)) => {
                        if l.handles.values().any(|h| h.para == *id) {
                            obs.count("reach.second_handle_to_same_paragraph");
                            aliased = true;
                        }
                        l.handles.insert(*out, Handle { para: *id, node: p, client: *client });
                    }
                    (None, None) => {}
                    (g, m) => {
                        return Err(Fail {
                            also_c05: false,
                            owner: last_owner,
                            clause: "model-content",
                            op: last_op.clone(),
                            pre: last_pre.clone(),
                            detail: format!("paragraphs().nth({index}) is_some={} but the list model has {} paragraphs ({:?})", g.is_some(), l.model.doc.len(), m),
                        })
                    }
                }
            }
            Ev::DropHandle { handle } => {
                l.handles.remove(handle);
            }
            Ev::Observe { handle, name } => {
                if let Some(h) = l.handles.get(handle) {
                    probe::at("observe");
                    let f = l.model.fields(h.para);
                    let want_get = f.iter().find(|e| &e.0 == name).map(|e| e.1.clone());
                    let want_all: Vec<String> = f.iter().filter(|e| &e.0 == name).map(|e| e.1.clone()).collect();
                    let want_keys: Vec<String> = f.iter().map(|e| e.0.clone()).collect();
                    let got_get = h.node.get(name);
                    let got_all: Vec<String> = h.node.get_all(name).collect();
                    let got_keys: Vec<String> = h.node.keys().collect();
                    let got_contains = h.node.contains_key(name);
                    if got_get != want_get || got_all != want_all || got_keys != want_keys || got_contains != want_get.is_some() {
                        return Err(Fail {
                            also_c05: false,
                            owner: last_owner,
                            clause: "observe",
                            op: last_op.clone(),
                            pre: last_pre.clone(),
                            detail: format!("through h{handle}: get({name})={:?}/{:?} get_all={:?}/{:?} keys={:?}/{:?} contains={}", got_get, want_get, got_all, want_all, got_keys, want_keys, got_contains),
                        });
                    }
                    if !l.model.attached(h.para) {
                        obs.count("reach.observe_through_orphan_handle");
                    }
                }
            }
            Ev::Set { handle, .. } | Ev::Insert { handle, .. } | Ev::Remove { handle, .. } | Ev::Rename { handle, .. } => {
                let (para, attached) = match l.handles.get(handle) {
                    Some(h) => (h.para, l.model.attached(h.para)),
                    None => continue,
                };
                let target_name = match ev {
                    Ev::Set { name, .. } | Ev::Insert { name, .. } | Ev::Remove { name, .. } => name.clone(),
                    Ev::Rename { old, .. } => old.clone(),
                    _ => unreachable!(),
                };
                let pre = prestate_field(&l, para, &target_name, &before);
                obs.prestate = pre.clone();
                last_owner = Owner::C04;
                last_op = kind.to_string();
                last_pre = pre.clone();
                mutated = true;
                let ord_before = if attached { l.model.text_ordinal(para) } else { None };
                let present = l.model.fields(para).iter().any(|e| e.0 == target_name);
                if l.handles.values().filter(|h| h.para == para).count() > 1 {
                    obs.count("reach.edit_with_aliasing_handles");
                }
                if !attached {
                    obs.count("reach.edit_through_orphan_handle");
                    aliased = true;
                }
                if pre.contains("last-line-unterminated") {
                    obs.count("reach.append_after_unterminated_line");
                }
                if pre.contains("target-has-duplicates") {
                    obs.count("reach.edit_hits_duplicated_name");
                }
                probe::at(kind);
                let h = l.handles.get_mut(handle).unwrap();
                let fop_owned: (u8, String, String, String);
                match ev {
                    Ev::Set { name, value, via_trait, .. } => {
                        if *via_trait {
                            obs.count("reach.edit_via_convert_trait");
                            deb822_lossless::convert::Deb822LikeParagraph::set(&mut h.node, name, value);
                        } else {
                            h.node.set(name, value);
                        }
                        l.model.set(para, name, value);
                        fop_owned = (if present { 0 } else { 1 }, name.clone(), name.clone(), value.clone());
                    }
                    Ev::Insert { name, value, .. } => {
                        h.node.insert(name, value);
                        l.model.insert(para, name, value);
                        fop_owned = (1, name.clone(), name.clone(), value.clone());
                    }
                    Ev::Remove { name, via_trait, .. } => {
                        if *via_trait {
                            obs.count("reach.edit_via_convert_trait");
                            deb822_lossless::convert::Deb822LikeParagraph::remove(&mut h.node, name);
                        } else {
                            h.node.remove(name);
                        }
                        l.model.remove(para, name);
                        fop_owned = (2, name.clone(), String::new(), String::new());
                    }
                    Ev::Rename { old, new, .. } => {
                        let val = l.model.fields(para).iter().find(|e| &e.0 == old).map(|e| e.1.clone());
                        let r = h.node.rename(old, new);
                        let mr = l.model.rename(para, old, new);
                        if r != mr {
                            return Err(Fail { also_c05: false, owner: Owner::C04, clause: "model-content", op: kind.into(), pre, detail: format!("rename({old},{new}) returned {r}, list model says {mr}") });
                        }
                        fop_owned = match val {
                            Some(v) => (0, old.clone(), new.clone(), v),
                            None => (3, String::new(), String::new(), String::new()),
                        };
                    }
                    _ => unreachable!(),
                }
                let after = l.doc.to_string();
                obs.event(&after);
                if let Err((cl, d)) = check_model(&l) {
                    return Err(Fail { also_c05: false, owner: Owner::C04, clause: cl, op: kind.into(), pre, detail: format!("after {ev:?} on {:?}: {d}", before) });
                }
                if !attached {
                    if after != before {
                        return Err(Fail { also_c05: false, owner: Owner::C04, clause: "locality", op: kind.into(), pre, detail: format!("edit through a handle to a removed paragraph changed the document: {:?} -> {:?}", before, after) });
                    }
                } else {
                    let ord_after = l.model.text_ordinal(para);
                    let fop = match fop_owned.0 {
                        0 => FieldOp::Replace { name: &fop_owned.1, new_name: &fop_owned.2, value: &fop_owned.3 },
                        1 => FieldOp::Append { name: &fop_owned.1, value: &fop_owned.3 },
                        2 => FieldOp::Remove { name: &fop_owned.1 },
                        _ => FieldOp::Nothing,
                    };
                    if let Err(d) = locality_field(&before, &after, ord_before, ord_after, &fop, obs) {
                        return Err(Fail { also_c05: false, owner: Owner::C04, clause: "locality", op: kind.into(), pre, detail: format!("{ev:?}: {d}; before {:?} after {:?}", before, after) });
                    }
                }
                if let Err((cl, d)) = check_reread(&l, &after) {
                    return Err(Fail { also_c05: false, owner: Owner::C04, clause: cl, op: kind.into(), pre, detail: format!("after {ev:?} on {:?}: {d}", before) });
                }
            }
            Ev::AddPara { client, out } | Ev::InsertPara { client, out, .. } => {
                let index = if let Ev::InsertPara { index, .. } = ev { Some(*index) } else { None };
                let pre = prestate_para(&l, index, &before);
                obs.prestate = pre.clone();
                *para_epoch = true;
                last_owner = Owner::C05;
                last_op = kind.to_string();
                last_pre = pre.clone();
                mutated = true;
                probe::at(kind);
                let (node, id) = match index {
                    None => (l.doc.add_paragraph(), l.model.add_paragraph()),
                    Some(i) => {
                        if i > l.model.doc.len() {
                            obs.count("reach.insert_beyond_end");
                        }
                        (l.doc.insert_paragraph(i), l.model.insert_paragraph(i))
                    }
                };
                l.handles.insert(*out, Handle { para: id, node, client: *client });
                let after = l.doc.to_string();
                obs.event(&after);
                if let Err((cl, d)) = check_model(&l) {
                    return Err(Fail { also_c05: false, owner: Owner::C05, clause: cl, op: kind.into(), pre, detail: format!("after {ev:?} on {:?}: {d}", before) });
                }
                if let Err(d) = locality_para(&before, &after, false, None, obs) {
                    return Err(Fail { also_c05: false, owner: Owner::C05, clause: "locality", op: kind.into(), pre, detail: format!("{ev:?}: {d}; before {:?} after {:?}", before, after) });
                }
                if let Err((cl, d)) = check_reread(&l, &after) {
                    return Err(Fail { also_c05: false, owner: Owner::C05, clause: cl, op: kind.into(), pre, detail: format!("after {ev:?} on {:?}: {d}", before) });
                }
            }
            Ev::RemovePara { index } => {
                let pre = prestate_para(&l, Some(*index), &before);
                obs.prestate = pre.clone();
                *para_epoch = true;
                last_owner = Owner::C05;
                last_op = kind.to_string();
                last_pre = pre.clone();
                mutated = true;
                let removed_ord = l.model.doc.get(*index).and_then(|id| l.model.text_ordinal(*id));
                if *index >= l.model.doc.len() {
                    obs.count("reach.remove_beyond_end");
                }
                probe::at(kind);
                l.doc.remove_paragraph(*index);
                let removed_existing = *index < l.model.doc.len();
                if let Some(id) = l.model.remove_paragraph(*index) {
                    if l.handles.values().any(|h| h.para == id) {
                        obs.count("reach.paragraph_removed_while_handle_held");
                        aliased = true;
                    }
                }
                let after = l.doc.to_string();
                obs.event(&after);
                if let Err((cl, d)) = check_model(&l) {
                    return Err(Fail { also_c05: false, owner: Owner::C05, clause: cl, op: kind.into(), pre, detail: format!("after {ev:?} on {:?}: {d}", before) });
                }
                if let Err(d) = locality_para(&before, &after, removed_existing, removed_ord, obs) {
                    return Err(Fail { also_c05: false, owner: Owner::C05, clause: "locality", op: kind.into(), pre, detail: format!("{ev:?}: {d}; before {:?} after {:?}", before, after) });
                }
                if let Err((cl, d)) = check_reread(&l, &after) {
                    return Err(Fail { also_c05: false, owner: Owner::C05, clause: cl, op: kind.into(), pre, detail: format!("after {ev:?} on {:?}: {d}", before) });
                }
            }
            Ev::Restart { plan } => {
                // persist -> crash -> reload: only the text survives
                obs.count("fault.restart");
                probe::at("restart");
                let mut r = SimReader::new(before.as_bytes(), plan);
                let res = Deb822::read(&mut r);
                obs.io(&r.fired);
                match res {
                    Err(e) => {
                        return Err(Fail { also_c05: false, owner: last_owner, clause: "restart-error", op: last_op.clone(), pre: last_pre.clone(), detail: format!("restart: persisted text {:?} does not load: {}", before, e.to_string().trim()) });
                    }
                    Ok(d) => {
                        l.model = l.model.restart();
                        *para_epoch = false;
                        l.doc = d;
                        l.handles.clear();
                        l.built = false;
                        aliased = true;
                        if let Err((cl, d)) = check_model(&l) {
                            let cl = if cl == "model-content" { "restart-content" } else { cl };
                            return Err(Fail { also_c05: false, owner: last_owner, clause: cl, op: last_op.clone(), pre: last_pre.clone(), detail: format!("after restart from {:?}: {d}", before) });
                        }
                        if l.doc.to_string() != before {
                            return Err(Fail { also_c05: false, owner: last_owner, clause: "restart-content", op: last_op.clone(), pre: last_pre.clone(), detail: format!("reloaded document prints {:?}, persisted text was {:?}", l.doc.to_string(), before) });
                        }
                    }
                }
            }
        }
        // coarse state key: shape of the model x layout class x live-handle shape
        let shape: String = l.model.doc.iter().map(|id| l.model.paras[id].len().to_string()).collect::<Vec<_>>().join(",");
        let orphans = l.handles.values().filter(|h| !l.model.attached(h.para)).count();
        let t = l.doc.to_string();
        let layout = format!("{}{}{}", t.contains('#') as u8, t.ends_with('\n') as u8, t.contains("\n\n\n") as u8);
        obs.state(key_of(&[&shape, &layout, &l.handles.len().to_string(), &orphans.to_string(), kind]));
        let _ = seq;
    }
    if mutated && aliased {
        let s = serde_json::to_string(c).unwrap();
        obs.nontrivial = Some(key_of(&[&s]));
    }
    if let (Some(b), Some(t)) = (&bystander, &bystander_text) {
        if t != "Section: net\nPriority: optional\nZz: 1\n" || &b.to_string() != t {
            return Err(Fail { also_c05: false, owner: last_owner, clause: "locality", op: "bystander-document".into(), pre: "second-live-document".into(), detail: format!("another document on the same thread, last edited before the session, read {:?} then and reads {:?} now", t, b.to_string()) });
        }
    }
    Ok(())
}

// ------------------------------------------------------------------ generation

fn unique_value(rng: &mut Rng, seq: usize, non_ascii: bool, multiline: bool) -> String {
    let v = text::value(rng, non_ascii, multiline);
    let mut lines: Vec<String> = v.split('\n').map(|s| s.to_string()).collect();
    lines[0] = format!("v{seq}{}", lines[0]);
    lines.join("\n")
}

fn pick_name(rng: &mut Rng, existing: &[(String, String)]) -> String {
    if !existing.is_empty() && rng.chance(1, 2) {
        let n = &existing[rng.below(existing.len())].0;
        if rng.chance(1, 6) {
            // case variant: a different name
            if n.chars().any(|c| c.is_ascii_lowercase()) {
                return n.to_uppercase();
            }
            return n.to_lowercase();
        }
        return n.clone();
    }
    let collide = rng.chance(1, 2);
    text::name(rng, collide)
}

pub fn generate(rng: &mut Rng, tier: Tier, para_foreground: bool) -> Case {
    let flags = text::DocFlags::swarm(rng);
    let init = match rng.below(10) {
        0 => Init::Empty,
        1 | 2 => {
            let np = rng.below(4);
            let paras = (0..np)
                .map(|_| {
                    let nf = 1 + rng.below(4);
                    let mut used = vec![];
                    (0..nf)
                        .map(|i| {
                            let mut n = text::name(rng, false);
                            if !flags.dups && used.contains(&n) {
                                n = format!("{n}{i}");
                            }
                            used.push(n.clone());
                            (n, text::value(rng, flags.non_ascii, flags.multiline))
                        })
                        .collect()
                })
                .collect();
            Init::Build { paras }
        }
        4 => {
            // one-paragraph texts (comment-free, some without final newline) collected into a document
            let n = 1 + rng.below(3);
            let texts = (0..n)
                .map(|_| {
                    let f2 = text::DocFlags { comments: false, leading_trivia: false, trailing_trivia: false, max_paras: 1, final_newline: rng.chance(1, 2), ..flags.clone() };
                    let mut t = text::doc(rng, &f2);
                    if t.trim().is_empty() {
                        t = "A: 1".to_string();
                    }
                    t
                })
                .collect();
            Init::Collect { texts }
        }
        3 => {
            // wrap_and_sort glues comment lines to whatever follows them (C07, not claimed): rebuilt start
            // states are taken from comment-free documents only
            let f2 = text::DocFlags { comments: false, ..flags.clone() };
            Init::Rebuilt { text: text::doc(rng, &f2), indent: 1 + rng.below(4) as u32, sort: rng.chance(1, 2) }
        }
        _ => Init::Parse { text: text::doc(rng, &flags) },
    };
    // the generator steps the list model so that events make sense
    let mut model = match &init {
        Init::Parse { text } => match segmenter::segment(text) {
            Some(s) => Model::from_paragraphs(segmenter::paragraphs(&s)),
            None => Model::default(),
        },
        Init::Build { paras } => Model::from_paragraphs(paras.clone()),
        Init::Rebuilt { .. } | Init::Collect { .. } => match init_live(&init) {
            Ok(l) => l.model,
            Err(_) => Model::default(),
        },
        Init::Empty => Model::default(),
    };
    let max_steps = match tier {
        Tier::Quick => 1 + rng.below(10),
        Tier::Thorough => {
            let long = rng.chance(1, 10);
            1 + rng.below(if long { 30 } else { 12 })
        }
    };
    let clients = 1 + rng.below(3) as u8;
    // swarm: per-run operation weights
    let mut w = [6u32, 1, 6, 4, 4, 3, 3, 2, 2, 2, 2]; // acquire drop set insert remove rename observe add insertp removep restart
    if para_foreground {
        w[7] = 6;
        w[8] = 6;
        w[9] = 6;
        w[10] = 3;
    }
    for x in w.iter_mut() {
        if rng.chance(1, 5) {
            *x = 0;
        }
    }
    w[0] = w[0].max(3);
    let mut handles: Vec<(usize, u32)> = Vec::new();
    let mut next_out = 0usize;
    let mut events = Vec::new();
    for seq in 0..max_steps {
        let mut k = rng.weighted(&w);
        if handles.is_empty() && matches!(k, 1..=6) {
            k = if model.doc.is_empty() { 7 } else { 0 };
        }
        if model.doc.is_empty() && k == 0 {
            k = 7;
        }
        let client = rng.below(clients as usize) as u8;
        let ev = match k {
            0 => {
                let index = if rng.chance(1, 12) { model.doc.len() + rng.below(2) } else { rng.below(model.doc.len().max(1)) };
                let out = next_out;
                next_out += 1;
                if let Some(id) = model.doc.get(index) {
                    handles.push((out, *id));
                }
                Ev::Acquire { client, index, out }
            }
            1 => {
                let i = rng.below(handles.len());
                let (h, _) = handles.remove(i);
                Ev::DropHandle { handle: h }
            }
            2..=6 => {
                let (h, id) = handles[rng.below(handles.len())];
                let existing = model.fields(id).clone();
                let name = pick_name(rng, &existing);
                match k {
                    2 => {
                        let value = unique_value(rng, seq, flags.non_ascii, flags.multiline);
                        model.set(id, &name, &value);
                        Ev::Set { handle: h, name, value, via_trait: rng.chance(1, 8) }
                    }
                    3 => {
                        let value = unique_value(rng, seq, flags.non_ascii, flags.multiline);
                        model.insert(id, &name, &value);
                        Ev::Insert { handle: h, name, value }
                    }
                    4 => {
                        model.remove(id, &name);
                        Ev::Remove { handle: h, name, via_trait: rng.chance(1, 8) }
                    }
                    5 => {
                        let new = pick_name(rng, &existing);
                        model.rename(id, &name, &new);
                        Ev::Rename { handle: h, old: name, new }
                    }
                    _ => Ev::Observe { handle: h, name },
                }
            }
            7 => {
                let out = next_out;
                next_out += 1;
                let id = model.add_paragraph();
                handles.push((out, id));
                Ev::AddPara { client, out }
            }
            8 => {
                // beyond the end means "append", however far beyond
                let index = if rng.chance(1, 6) { if rng.chance(1, 4) { *rng.pick(&[usize::MAX, usize::MAX - 1, usize::MAX / 2, 1usize << 32]) } else { model.doc.len() + rng.below(3) } } else { rng.below(model.doc.len() + 1) };
                let out = next_out;
                next_out += 1;
                let id = model.insert_paragraph(index);
                handles.push((out, id));
                Ev::InsertPara { client, index, out }
            }
            9 => {
                let index = if rng.chance(1, 6) { if rng.chance(1, 4) { *rng.pick(&[usize::MAX, usize::MAX - 1, usize::MAX / 2]) } else { model.doc.len() + rng.below(3) } } else { rng.below(model.doc.len().max(1)) };
                model.remove_paragraph(index);
                Ev::RemovePara { index }
            }
            _ => {
                let len: usize = 64;
                let plan = gen_read_plan(rng, len, false);
                model = model.restart();
                handles.clear();
                Ev::Restart { plan }
            }
        };
        events.push(ev);
    }
    Case { init, events }
}

pub fn shrink(c: &Case) -> Vec<Case> {
    let mut out = Vec::new();
    let n = c.events.len();
    if n > 1 {
        out.push(Case { init: c.init.clone(), events: c.events[..n / 2].to_vec() });
        out.push(Case { init: c.init.clone(), events: c.events[n / 2..].to_vec() });
    }
    for i in 0..n {
        let mut e = c.events.clone();
        e.remove(i);
        out.push(Case { init: c.init.clone(), events: e });
    }
    match &c.init {
        Init::Parse { text } => {
            out.push(Case { init: Init::Empty, events: c.events.clone() });
            for t in text::shrink_text(text) {
                out.push(Case { init: Init::Parse { text: t }, events: c.events.clone() });
            }
        }
        Init::Build { paras } => {
            out.push(Case { init: Init::Empty, events: c.events.clone() });
            for i in 0..paras.len() {
                let mut p = paras.clone();
                p.remove(i);
                out.push(Case { init: Init::Build { paras: p }, events: c.events.clone() });
            }
            for i in 0..paras.len() {
                for j in 0..paras[i].len() {
                    let mut p = paras.clone();
                    p[i].remove(j);
                    out.push(Case { init: Init::Build { paras: p }, events: c.events.clone() });
                }
            }
        }
        Init::Rebuilt { text, indent, sort } => {
            out.push(Case { init: Init::Parse { text: text.clone() }, events: c.events.clone() });
            for t in text::shrink_text(text) {
                out.push(Case { init: Init::Rebuilt { text: t, indent: *indent, sort: *sort }, events: c.events.clone() });
            }
        }
        Init::Collect { texts } => {
            for i in 0..texts.len() {
                if texts.len() > 1 {
                    let mut t = texts.clone();
                    t.remove(i);
                    out.push(Case { init: Init::Collect { texts: t }, events: c.events.clone() });
                }
                for cand in text::shrink_text(&texts[i]).into_iter().take(30) {
                    let mut t = texts.clone();
                    t[i] = cand;
                    out.push(Case { init: Init::Collect { texts: t }, events: c.events.clone() });
                }
            }
        }
        Init::Empty => {}
    }
    // simplify operands
    for i in 0..n {
        let mut e = c.events.clone();
        let changed = match &mut e[i] {
            Ev::Set { value, .. } | Ev::Insert { value, .. } => {
                if value.contains('\n') {
                    *value = value.split('\n').next().unwrap().to_string();
                    true
                } else if value.len() > 2 || !value.is_ascii() {
                    *value = format!("v{i}");
                    true
                } else {
                    false
                }
            }
            Ev::Restart { plan } => {
                if !plan.steps.is_empty() {
                    plan.steps.clear();
                    true
                } else {
                    false
                }
            }
            _ => false,
        };
        if changed {
            out.push(Case { init: c.init.clone(), events: e });
        }
    }
    out
}

fn to_violation(f: Fail) -> Violation {
    Violation::new(f.owner.id(), f.clause, &f.op, &f.pre, f.detail)
}

fn execute_for(me: &'static str, c: &Case, obs: &mut Obs) -> Result<(), Violation> {
    let mut para_epoch = false;
    let r = std::panic::catch_unwind(std::panic::AssertUnwindSafe(|| run_session(c, obs, &mut para_epoch)));
    let r = match r {
        Ok(r) => r,
        Err(payload) => {
            // a panic belongs to the property that owns the step in flight
            let label = probe::current_label();
            let owner = if matches!(label.as_str(), "add_paragraph" | "insert_paragraph" | "remove_paragraph") { "C05" } else { "C04" };
            if owner == me {
                std::panic::resume_unwind(payload);
            }
            obs.count(&format!("ended_on_sibling_property.{owner}/panic/{label}"));
            return Ok(());
        }
    };
    match r {
        Ok(()) => Ok(()),
        Err(mut f) => {
            // paragraph separation is C05's statement: when the printed text stops re-reading to the
            // same paragraphs after a field edit that follows a paragraph-level edit in the same epoch
            // (typically the first field put into a freshly added paragraph), C05 owns the failure too
            if me == "C05" && f.owner == Owner::C04 && para_epoch && matches!(f.clause, "restart-paragraphs" | "restart-content" | "restart-error" | "locality") {
                f.owner = Owner::C05;
                f.also_c05 = true;
                f.op = format!("{}-after-paragraph-edit", f.op);
            }
            if f.owner.id() == me {
                Err(to_violation(f))
            } else {
                // a failure owned by the sibling property ends the run; it is that check's to report
                obs.count(&format!("ended_on_sibling_property.{}/{}/{}/{}", f.owner.id(), f.clause, f.op, f.pre));
                Ok(())
            }
        }
    }
}

const RULE: &str = "one case = an initial document (parsed from generated well-formed text with comments / blank-line runs / tabs / duplicates / optional final newline, or built from name/value pairs, or empty) plus a seeded schedule of 1-12 steps (up to 30 in thorough) issued by 1-3 clients: acquire/drop paragraph handles, set/insert/remove/rename/observe through any live handle (including second handles to the same paragraph and handles to removed paragraphs), add/insert/remove paragraph at in- and out-of-range indices, and restart (print, drop every handle, re-read through a chunked EINTR-ing reader); after every step the list model, the locality diff on reference-segmented text and a strict re-read are checked; non-trivial = at least one mutating step AND at least one alias/orphan/restart event; distinct = FNV hash of the whole trace";
const STATE: &str = "distinct (paragraph-size vector, layout class [has comment, final newline, blank run], number of live handles, number of orphan handles, last step kind) tuples";

fn assumptions() -> Vec<&'static str> {
    vec![
        "the list model (DESIGN Appendix E) and the reference segmenter (Appendix F) are the oracle; where the property text is silent (placement of an appended field relative to trailing comments, formatting of a renamed field) every placement consistent with the list semantics is accepted",
        "one relaxation: a previously unterminated last line may gain its newline when something is appended after it",
        "start states whose reference reading differs from the implementation's reading are skipped (that is C03, not claimed)",
        "operand values are LF-joined non-empty lines that do not start with whitespace; whitespace-only lines and a CR inside an operand line are outside the stated domain (CR ends a line in this format) and are not generated; fields with nothing after the colon occur in start states only",
        "a paragraph emptied of all its fields has no text form: while one exists the re-read clauses are suspended and it is dropped from the model at the next restart (content and locality clauses stay on)",
        "start states: the empty document, generated text (strict reader), programmatic build from pairs, FromIterator over separately parsed paragraphs (some without final newline), and the result of wrap_and_sort on comment-free documents (what wrap_and_sort does to comments is C07)",
    ]
}

fn components() -> Value {
    json!({"real": ["deb822_lossless::{Deb822, Paragraph, Entry} editing API, parser, Display", "rowan mutable trees (splice_children, detach)", "Deb822::read + std::io::Read::read_to_string on restart"],
           "stub": ["the clients' schedule (seeded scheduler)", "the disk the document is persisted to and re-read from (SimReader, transient faults only)", "getrandom"]})
}

pub struct C04;
impl Scenario for C04 {
    type Case = Case;
    const ID: &'static str = "C04";
    const LEVEL: &'static str = "exploration";
    fn runs(tier: Tier) -> u64 {
        match tier {
            Tier::Quick => 500_000,
            Tier::Thorough => 12_000_000,
        }
    }
    fn rule() -> &'static str {
        RULE
    }
    fn state_measure() -> &'static str {
        STATE
    }
    fn assumptions() -> Vec<&'static str> {
        assumptions()
    }
    fn components() -> Value {
        components()
    }
    fn generate(rng: &mut Rng, tier: Tier, _k: u64) -> Case {
        generate(rng, tier, false)
    }
    fn execute(c: &Case, obs: &mut Obs) -> Result<(), Violation> {
        execute_for("C04", c, obs)
    }
    fn shrink(c: &Case) -> Vec<Case> {
        shrink(c)
    }
}

pub struct C05;
impl Scenario for C05 {
    type Case = Case;
    const ID: &'static str = "C05";
    const LEVEL: &'static str = "exploration";
    fn runs(tier: Tier) -> u64 {
        match tier {
            Tier::Quick => 500_000,
            Tier::Thorough => 12_000_000,
        }
    }
    fn rule() -> &'static str {
        RULE
    }
    fn state_measure() -> &'static str {
        STATE
    }
    fn assumptions() -> Vec<&'static str> {
        assumptions()
    }
    fn components() -> Value {
        components()
    }
    fn generate(rng: &mut Rng, tier: Tier, _k: u64) -> Case {
        generate(rng, tier, true)
    }
    fn execute(c: &Case, obs: &mut Obs) -> Result<(), Violation> {
        execute_for("C05", c, obs)
    }
    fn shrink(c: &Case) -> Vec<Case> {
        shrink(c)
    }
}
