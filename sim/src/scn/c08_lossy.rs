//! C08 — lossy values: list-model edits and the print / re-read ("restart") invariant.
use crate::core::driver::{key_of, Obs, Scenario, Tier, Violation};
use crate::core::io::{gen_read_plan, ReadPlan, SimReader};
use crate::core::probe;
use crate::core::rng::Rng;
use crate::gen::text;
use deb822_lossless::lossy;
use serde::{Deserialize, Serialize};
use serde_json::{json, Value};
use std::str::FromStr;

pub struct C08;
const ID: &str = "C08";

type Fields = Vec<(String, String)>;

#[derive(Clone, Debug, Serialize, Deserialize)]
#[serde(tag = "op", rename_all = "snake_case")]
pub enum Ev {
    Set { para: usize, name: String, value: String },
    Insert { para: usize, name: String, value: String },
    Remove { para: usize, name: String },
    Get { para: usize, name: String },
    Restart { plan: ReadPlan },
}

#[derive(Clone, Debug, Serialize, Deserialize)]
pub struct Case {
    pub paras: Vec<Fields>,
    pub events: Vec<Ev>,
}

fn v(clause: &str, op: &str, pre: &str, detail: String) -> Violation {
    Violation::new(ID, clause, op, pre, detail)
}

/// C08 value: possibly empty; or a possibly empty first line followed by non-empty lines.
fn gen_value(rng: &mut Rng, non_ascii: bool, seq: usize) -> String {
    match rng.below(8) {
        0 => String::new(),
        1 => {
            let n = 1 + rng.below(3);
            let mut s = String::new();
            for _ in 0..n {
                s.push('\n');
                s.push_str(&text::value_line(rng, non_ascii, true));
            }
            s
        }
        _ => {
            let mut lines: Vec<String> = text::value(rng, non_ascii, true).split('\n').map(|x| x.to_string()).collect();
            lines[0] = format!("v{seq}{}", lines[0]);
            if rng.chance(1, 6) {
                let last = lines.len() - 1;
                lines[last].push_str("  ");
            }
            lines.join("\n")
        }
    }
}

fn build(paras: &[Fields]) -> Vec<lossy::Paragraph> {
    paras.iter().map(|p| p.iter().cloned().collect::<lossy::Paragraph>()).collect()
}

fn print_doc(ps: &[lossy::Paragraph]) -> String {
    ps.iter().map(|p| p.to_string()).collect::<Vec<_>>().join("\n")
}

fn fields_of(p: &lossy::Paragraph) -> Fields {
    p.iter().map(|(k, v)| (k.to_string(), v.to_string())).collect()
}

fn non_blank_lines(v: &str) -> Vec<String> {
    v.split('\n').filter(|l| !l.trim().is_empty()).map(|l| l.to_string()).collect()
}

fn value_class(val: &str) -> &'static str {
    if val.is_empty() {
        "empty-value"
    } else if val.starts_with('\n') {
        "empty-first-line"
    } else if val.contains('\n') {
        "multi-line"
    } else {
        "single-line"
    }
}

/// print -> both readers -> equality; returns the reloaded document
fn reload(doc: &lossy::Deb822, model: &[Fields], plan: &ReadPlan, op: &str, pre: &str, obs: &mut Obs) -> Result<lossy::Deb822, Violation> {
    probe::at("lossy::Deb822::to_string");
    let text = doc.to_string();
    // paragraphs separated by exactly one blank line
    if text.contains("\n\n\n") || text.starts_with('\n') {
        return Err(v("separator", op, pre, format!("printed document has a run of blank lines: {:?}", text)));
    }
    probe::at("lossy::Deb822::from_reader");
    let mut r = SimReader::new(text.as_bytes(), plan);
    let re = lossy::Deb822::from_reader(&mut r);
    obs.io(&r.fired);
    let re = match re {
        Ok(d) => d,
        Err(e) => return Err(v("restart-error", op, pre, format!("lossy reader rejects printed text {:?}: {}", text, e))),
    };
    if &re != doc {
        return Err(v("value-equality", op, pre, format!("printed {:?}; reloaded {:?} != live {:?}", text, re, doc)));
    }
    let got: Vec<Fields> = re.iter().map(fields_of).collect();
    if got != model {
        return Err(v("restart-content", op, pre, format!("printed {:?}; reloaded {:?}, list model {:?}", text, got, model)));
    }
    probe::at("Deb822::from_str");
    match deb822_lossless::Deb822::from_str(&text) {
        Err(e) => return Err(v("restart-error", op, pre, format!("lossless reader rejects printed text {:?}: {}", text, e.to_string().trim()))),
        Ok(d) => {
            let ll: Vec<Vec<(String, Vec<String>)>> = d.paragraphs().map(|p| p.items().map(|(k, val)| (k, non_blank_lines(&val))).collect()).collect();
            let want: Vec<Vec<(String, Vec<String>)>> = model.iter().map(|p| p.iter().map(|(k, val)| (k.clone(), non_blank_lines(val))).collect()).collect();
            if ll != want {
                return Err(v("lossless-agreement", op, pre, format!("printed {:?}; lossless reader reports {:?}, expected {:?}", text, ll, want)));
            }
        }
    }
    Ok(re)
}

impl Scenario for C08 {
    type Case = Case;
    const ID: &'static str = ID;
    const LEVEL: &'static str = "exploration";
    fn runs(tier: Tier) -> u64 {
        match tier {
            Tier::Quick => 500_000,
            Tier::Thorough => 12_000_000,
        }
    }
    fn rule() -> &'static str {
        "one case = a lossy document of 1-4 paragraphs built from name/value pairs (valid names biased to collide; values empty, or an optionally empty first line followed by non-empty lines without leading whitespace, Unicode, ':' '#' inside, trailing spaces) plus 0-10 scheduled steps set/insert/remove/get through iter_mut() and restart (print, reload through lossy::Deb822::from_reader over a chunked EINTR-ing reader, and through the strict lossless reader); after every step the list model is compared, at every restart and at the end value equality, separator and lossless agreement are checked; non-trivial = at least one mutating step and one restart; distinct = FNV hash of the trace"
    }
    fn state_measure() -> &'static str {
        "distinct (paragraph-size vector, value classes present [empty / empty-first-line / multi-line / single-line], last step kind) tuples"
    }
    fn assumptions() -> Vec<&'static str> {
        vec![
            "the last field of a paragraph is never removed: a paragraph without fields has no text form and is outside the stated domain",
            "continuation lines starting with '#' are outside the domain (both readers read an indented '#' line as a comment)",
        ]
    }
    fn components() -> Value {
        json!({"real": ["deb822_lossless::lossy::{Deb822, Paragraph, Field}: FromStr, from_reader, Display, get/set/insert/remove", "deb822_lossless::Deb822::from_str"], "stub": ["disk behind from_reader (SimReader, transient faults)", "getrandom"]})
    }

    fn generate(rng: &mut Rng, _tier: Tier, _k: u64) -> Case {
        let non_ascii = rng.chance(1, 2);
        let np = 1 + rng.below(4);
        let mut paras: Vec<Fields> = Vec::new();
        let mut seq = 0;
        for _ in 0..np {
            let nf = 1 + rng.below(4);
            let mut p = Vec::new();
            for _ in 0..nf {
                seq += 1;
                let collide = rng.chance(1, 3);
                p.push((text::name(rng, collide), gen_value(rng, non_ascii, seq)));
            }
            paras.push(p);
        }
        let mut model = paras.clone();
        let steps = rng.below(11);
        let mut events = Vec::new();
        for _ in 0..steps {
            seq += 1;
            let pi = rng.below(model.len());
            let name = if rng.chance(2, 3) { model[pi][rng.below(model[pi].len())].0.clone() } else { text::name(rng, true) };
            let ev = match rng.below(9) {
                0 | 1 => {
                    let value = gen_value(rng, non_ascii, seq);
                    if let Some(e) = model[pi].iter_mut().find(|e| e.0 == name) {
                        e.1 = value.clone();
                    } else {
                        model[pi].push((name.clone(), value.clone()));
                    }
                    Ev::Set { para: pi, name, value }
                }
                2 | 3 => {
                    let value = gen_value(rng, non_ascii, seq);
                    model[pi].push((name.clone(), value.clone()));
                    Ev::Insert { para: pi, name, value }
                }
                4 | 5 => {
                    if model[pi].iter().all(|e| e.0 == name) {
                        Ev::Get { para: pi, name }
                    } else {
                        model[pi].retain(|e| e.0 != name);
                        Ev::Remove { para: pi, name }
                    }
                }
                6 => Ev::Get { para: pi, name },
                _ => Ev::Restart { plan: gen_read_plan(rng, 80, false) },
            };
            events.push(ev);
        }
        Case { paras, events }
    }

    fn execute(c: &Case, obs: &mut Obs) -> Result<(), Violation> {
        if c.paras.is_empty() || c.paras.iter().any(|p| p.is_empty()) {
            return Ok(());
        }
        let mut model = c.paras.clone();
        probe::at("Paragraph::from_iter");
        let built = build(&model);
        // stand-alone paragraphs: print / re-read
        for (p, m) in built.iter().zip(model.iter()) {
            let t = p.to_string();
            match lossy::Paragraph::from_str(&t) {
                Ok(q) if &q == p => {}
                other => return Err(v("value-equality", "paragraph-print", "built", format!("paragraph {:?} prints {:?} which re-reads as {:?}", m, t, other.map(|q| fields_of(&q)).map_err(|e| e.to_string())))),
            }
        }
        let text0 = print_doc(&built);
        probe::at("lossy::Deb822::from_str");
        let mut doc = match lossy::Deb822::from_str(&text0) {
            Ok(d) => d,
            Err(e) => return Err(v("restart-error", "init", "built", format!("canonical print {:?} of {:?} rejected: {}", text0, model, e))),
        };
        if doc.iter().map(fields_of).collect::<Vec<_>>() != model {
            return Err(v("restart-content", "init", "built", format!("canonical print {:?} reads back as {:?}, expected {:?}", text0, doc.iter().map(fields_of).collect::<Vec<_>>(), model)));
        }
        let mut mutated = false;
        let mut restarted = false;
        let mut last_op = "init".to_string();
        let mut last_pre = "built".to_string();
        for ev in &c.events {
            obs.step();
            match ev {
                Ev::Set { para, name, value } | Ev::Insert { para, name, value } => {
                    if *para >= model.len() {
                        continue;
                    }
                    let is_set = matches!(ev, Ev::Set { .. });
                    let op = if is_set { "set" } else { "insert" };
                    let n = model[*para].iter().filter(|e| &e.0 == name).count();
                    let pre = format!("{}+{}", if n == 0 { "target-absent" } else if n == 1 { "target-present" } else { "target-has-duplicates" }, value_class(value));
                    obs.prestate = pre.clone();
                    obs.count(&format!("op.{op}"));
                    obs.count(&format!("reach.{}", value_class(value).replace('-', "_")));
                    probe::at(op);
                    let p = doc.iter_mut().nth(*para).unwrap();
                    if is_set {
                        p.set(name, value);
                        if let Some(e) = model[*para].iter_mut().find(|e| &e.0 == name) {
                            e.1 = value.clone();
                        } else {
                            model[*para].push((name.clone(), value.clone()));
                        }
                    } else {
                        p.insert(name, value);
                        model[*para].push((name.clone(), value.clone()));
                    }
                    mutated = true;
                    last_op = op.to_string();
                    last_pre = pre;
                }
                Ev::Remove { para, name } => {
                    if *para >= model.len() || model[*para].iter().all(|e| &e.0 == name) {
                        continue;
                    }
                    let n = model[*para].iter().filter(|e| &e.0 == name).count();
                    let pre = if n == 0 { "target-absent" } else if n == 1 { "target-present" } else { "target-has-duplicates" }.to_string();
                    obs.prestate = pre.clone();
                    obs.count("op.remove");
                    probe::at("remove");
                    doc.iter_mut().nth(*para).unwrap().remove(name);
                    model[*para].retain(|e| &e.0 != name);
                    mutated = true;
                    last_op = "remove".into();
                    last_pre = pre;
                }
                Ev::Get { para, name } => {
                    if *para >= model.len() {
                        continue;
                    }
                    obs.count("op.get");
                    probe::at("get");
                    let p = doc.iter().nth(*para).unwrap();
                    let want = model[*para].iter().find(|e| &e.0 == name).map(|e| e.1.as_str());
                    if p.get(name) != want {
                        return Err(v("model-content", "get", &last_pre, format!("get({name}) = {:?}, list model says {:?}", p.get(name), want)));
                    }
                    if p.len() != model[*para].len() || p.is_empty() != model[*para].is_empty() {
                        return Err(v("model-content", "len", &last_pre, format!("len {} vs model {}", p.len(), model[*para].len())));
                    }
                }
                Ev::Restart { plan } => {
                    obs.count("fault.restart");
                    doc = reload(&doc, &model, plan, &last_op, &last_pre, obs)?;
                    restarted = true;
                }
            }
            let got: Vec<Fields> = doc.iter().map(fields_of).collect();
            if got != model {
                return Err(v("model-content", &last_op, &last_pre, format!("after {ev:?}: document {:?}, list model {:?}", got, model)));
            }
            obs.event(&format!("{:?}", got));
            let shape: String = model.iter().map(|p| p.len().to_string()).collect::<Vec<_>>().join(",");
            let mut classes: Vec<&str> = model.iter().flatten().map(|e| value_class(&e.1)).collect();
            classes.sort();
            classes.dedup();
            obs.state(key_of(&[&shape, &classes.join("|"), &last_op]));
        }
        reload(&doc, &model, &ReadPlan::default(), &last_op, &last_pre, obs)?;
        if mutated && restarted {
            obs.nontrivial = Some(key_of(&[&serde_json::to_string(c).unwrap()]));
        }
        Ok(())
    }

    fn shrink(c: &Case) -> Vec<Case> {
        let mut out = Vec::new();
        let n = c.events.len();
        if n > 1 {
            out.push(Case { paras: c.paras.clone(), events: c.events[..n / 2].to_vec() });
        }
        for i in 0..n {
            let mut e = c.events.clone();
            e.remove(i);
            out.push(Case { paras: c.paras.clone(), events: e });
        }
        if c.paras.len() > 1 {
            for i in 0..c.paras.len() {
                let mut p = c.paras.clone();
                p.remove(i);
                // paragraph indices shift: drop events that pointed at later paragraphs is not attempted; they are skipped when out of range
                out.push(Case { paras: p, events: c.events.clone() });
            }
        }
        for i in 0..c.paras.len() {
            if c.paras[i].len() > 1 {
                for j in 0..c.paras[i].len() {
                    let mut p = c.paras.clone();
                    p[i].remove(j);
                    out.push(Case { paras: p, events: c.events.clone() });
                }
            }
            for j in 0..c.paras[i].len() {
                let val = &c.paras[i][j].1;
                for cand in [String::new(), "x".to_string(), val.split('\n').next().unwrap_or("").to_string(), val.chars().filter(|ch| ch.is_ascii()).collect::<String>()] {
                    if &cand != val && cand.len() < val.len() {
                        let mut p = c.paras.clone();
                        p[i][j].1 = cand;
                        out.push(Case { paras: p, events: c.events.clone() });
                    }
                }
            }
        }
        for i in 0..n {
            let mut e = c.events.clone();
            let changed = match &mut e[i] {
                Ev::Set { value, .. } | Ev::Insert { value, .. } => {
                    if value.len() > 1 {
                        *value = if value.starts_with('\n') { "\nx".to_string() } else { "x".to_string() };
                        true
                    } else {
                        false
                    }
                }
                Ev::Restart { plan } => {
                    if !plan.steps.is_empty() {
                        plan.steps.clear();
                        true
                    } else {
                        false
                    }
                }
                _ => false,
            };
            if changed {
                out.push(Case { paras: c.paras.clone(), events: e });
            }
        }
        out
    }
}
