//! C11 — editing a relationship field through a root handle and entry / relation handles obtained
//! at different times, against a list-of-lists model. Root-replacing operations (Relations::insert,
//! push) make older handles stale; the scheduler knows which handles are fresh and only judges
//! edits made through the root or through fresh handles (DESIGN §2 C11).
use crate::core::driver::{key_of, Obs, Scenario, Tier, Violation};
use crate::core::probe;
use crate::core::rng::Rng;
use crate::gen::relations as grel;
use crate::model::relations::{field_text, parse_field, parse_rel, EntryM, FieldM, Rel};
use debian_control::lossless::relations::{Entry, Relation, Relations};
use debian_control::relations::{BuildProfile, VersionConstraint};
use serde::{Deserialize, Serialize};
use serde_json::{json, Value};
use std::collections::BTreeMap;
use std::str::FromStr;

pub struct C11;
const ID: &str = "C11";

#[derive(Clone, Debug, Serialize, Deserialize)]
#[serde(tag = "how", rename_all = "snake_case")]
pub enum RelSpec {
    Parse { text: String },
    New { name: String, version: Option<(String, String)> },
    Builder { name: String, version: Option<(String, String)>, archqual: Option<String>, archs: Vec<String>, profiles: Vec<Vec<(bool, String)>> },
}

#[derive(Clone, Debug, Serialize, Deserialize)]
#[serde(tag = "how", rename_all = "snake_case")]
pub enum EntrySpec {
    Parse { text: String },
    FromRelations { rels: Vec<RelSpec> },
}

#[derive(Clone, Debug, Serialize, Deserialize)]
#[serde(tag = "op", rename_all = "snake_case")]
pub enum Ev {
    GetEntry { index: usize, out: usize },
    GetRelation { entry: usize, index: usize, out: usize },
    Push { entry: EntrySpec },
    Insert { index: usize, entry: EntrySpec },
    Replace { index: usize, entry: EntrySpec },
    RemoveEntry { index: usize },
    EntryPush { entry: usize, rel: RelSpec },
    EntryReplace { entry: usize, index: usize, rel: RelSpec },
    EntryRemoveRelation { entry: usize, index: usize },
    EntryRemove { entry: usize },
    SetVersion { rel: usize, version: Option<(String, String)> },
    DropConstraint { rel: usize },
    SetArchqual { rel: usize, archqual: String },
    SetArchitectures { rel: usize, archs: Vec<String> },
    AddProfile { rel: usize, profile: Vec<(bool, String)> },
    RelRemove { rel: usize },
    Restart,
}

impl Ev {
    fn kind(&self) -> &'static str {
        match self {
            Ev::GetEntry { .. } => "get_entry",
            Ev::GetRelation { .. } => "get_relation",
            Ev::Push { .. } => "push",
            Ev::Insert { .. } => "insert",
            Ev::Replace { .. } => "replace",
            Ev::RemoveEntry { .. } => "remove_entry",
            Ev::EntryPush { .. } => "entry_push",
            Ev::EntryReplace { .. } => "entry_replace",
            Ev::EntryRemoveRelation { .. } => "entry_remove_relation",
            Ev::EntryRemove { .. } => "entry_remove",
            Ev::SetVersion { .. } => "set_version",
            Ev::DropConstraint { .. } => "drop_constraint",
            Ev::SetArchqual { .. } => "set_archqual",
            Ev::SetArchitectures { .. } => "set_architectures",
            Ev::AddProfile { .. } => "add_profile",
            Ev::RelRemove { .. } => "relation_remove",
            Ev::Restart => "restart",
        }
    }
}

#[derive(Clone, Debug, Serialize, Deserialize)]
pub struct Case {
    /// initial field text ("" = empty field); parsed with substvars allowed when it contains "${"
    pub init: String,
    /// how the initial tree is obtained from `init`: "parse" (default), "from_entries"
    /// (Relations::from(Vec<Entry>) over the parsed entries), "wrap_and_sort" (the canonicalised tree)
    #[serde(default)]
    pub init_how: String,
    pub events: Vec<Ev>,
}

fn v(clause: &str, op: &str, pre: &str, detail: String) -> Violation {
    Violation::new(ID, clause, op, pre, detail)
}

fn vc_of(op: &str) -> VersionConstraint {
    VersionConstraint::from_str(op).expect("operator")
}

fn build_rel(s: &RelSpec) -> Option<(Relation, Rel)> {
    match s {
        RelSpec::Parse { text } => {
            let m = parse_rel(text)?;
            let r = Relation::from_str(text).ok()?;
            Some((r, m))
        }
        RelSpec::New { name, version } => {
            let r = Relation::new(name, version.as_ref().map(|(o, ver)| (vc_of(o), ver.parse().unwrap())));
            Some((r, Rel { version: version.clone(), ..Rel::simple(name) }))
        }
        RelSpec::Builder { name, version, archqual, archs, profiles } => {
            let mut b = Relation::build(name);
            if let Some((o, ver)) = version {
                b = b.version_constraint(vc_of(o), ver.parse().unwrap());
            }
            if let Some(a) = archqual {
                b = b.archqual(a);
            }
            if !archs.is_empty() {
                b = b.architectures(archs.clone());
            }
            let lists: Vec<Vec<BuildProfile>> = profiles.iter().map(|p| p.iter().map(|(n, s)| if *n { BuildProfile::Disabled(s.clone()) } else { BuildProfile::Enabled(s.clone()) }).collect()).collect();
            // the three ways to give a builder its profile lists; `profiles` sets the lists, whatever was added before
            match name.len() % 3 {
                0 => {
                    for l in lists {
                        b = b.add_profile(l);
                    }
                }
                1 => b = b.profiles(lists),
                _ => {
                    b = b.add_profile(vec![BuildProfile::Enabled("discarded".to_string())]);
                    b = b.profiles(lists);
                }
            }
            let m = Rel {
                name: name.clone(),
                archqual: archqual.clone(),
                version: version.clone(),
                archs: if archs.is_empty() { None } else { Some(archs.iter().map(|a| (false, a.clone())).collect()) },
                profiles: profiles.clone(),
            };
            Some((b.build(), m))
        }
    }
}

fn build_entry(s: &EntrySpec) -> Option<(Entry, EntryM)> {
    match s {
        EntrySpec::Parse { text } => {
            let m = parse_field(text, false)?;
            if m.len() != 1 {
                return None;
            }
            let e = Entry::from_str(text).ok()?;
            Some((e, m[0].clone()))
        }
        EntrySpec::FromRelations { rels } => {
            let mut rs = vec![];
            let mut ms = vec![];
            for r in rels {
                let (a, b) = build_rel(r)?;
                rs.push(a);
                ms.push(b);
            }
            if rs.is_empty() {
                return None;
            }
            Some((Entry::from(rs), EntryM::Alts(ms)))
        }
    }
}

/// Model index (into FieldM) of the i-th addressable entry (substvars are not addressable).
fn alt_index(m: &FieldM, i: usize) -> Option<usize> {
    m.iter().enumerate().filter(|(_, e)| matches!(e, EntryM::Alts(_))).nth(i).map(|x| x.0)
}

fn n_alts(m: &FieldM) -> usize {
    m.iter().filter(|e| matches!(e, EntryM::Alts(_))).count()
}

struct EH {
    node: Entry,
    /// position among addressable entries at the time of the last refresh
    pos: usize,
    fresh: bool,
}
struct RH {
    node: Relation,
    entry_pos: usize,
    pos: usize,
    fresh: bool,
}

/// top-level pieces between commas, trimmed
fn pieces(text: &str) -> Vec<String> {
    text.split(',').map(|p| p.trim_matches(|c: char| c == ' ' || c == '\t' || c == '\n').to_string()).collect()
}

fn empty_entries(text: &str) -> usize {
    let p = pieces(text);
    if p.len() <= 1 {
        return 0;
    }
    // an empty piece that is not the trailing one
    p[..p.len() - 1].iter().filter(|x| x.is_empty()).count()
}

fn trailing_comma(text: &str) -> bool {
    text.trim_end().ends_with(',')
}

fn impl_structure(r: &Relations) -> Vec<Vec<(String, Option<String>, Option<(String, String)>, Option<Vec<String>>, Vec<Vec<(bool, String)>>)>> {
    r.entries()
        .map(|e| {
            e.relations()
                .map(|x| {
                    (
                        x.name(),
                        x.archqual(),
                        x.version().map(|(c, ver)| (c.to_string(), ver.to_string())),
                        x.architectures().map(|a| a.collect::<Vec<_>>()),
                        x.profiles().map(|g| g.into_iter().map(|p| match p { BuildProfile::Enabled(s) => (false, s), BuildProfile::Disabled(s) => (true, s) }).collect()).collect(),
                    )
                })
                .collect()
        })
        .collect()
}

fn model_structure(m: &FieldM) -> Vec<Vec<(String, Option<String>, Option<(String, String)>, Option<Vec<String>>, Vec<Vec<(bool, String)>>)>> {
    m.iter()
        .filter_map(|e| match e {
            EntryM::Alts(a) => Some(a.iter().map(|r| (r.name.clone(), r.archqual.clone(), r.version.clone(), r.archs.as_ref().map(|x| x.iter().map(|y| y.1.clone()).collect()), r.profiles.clone())).collect()),
            _ => None,
        })
        .collect()
}

/// Everything that must hold for the printed root after a judged step.
fn check_root(root: &Relations, model: &FieldM, before: &str, touched: &[usize], op: &str, pre: &str, before_model: &FieldM) -> Result<(), Violation> {
    let text = root.to_string();
    let substvars = model.iter().any(|e| matches!(e, EntryM::Substvar(_)));
    // (1) reference reading of the printed text equals the model
    match parse_field(&text, true) {
        None => return Err(v("not-well-formed", op, pre, format!("field prints {:?} (was {:?}), which is not a well-formed relationship field; model {:?}", text, before, field_text(model)))),
        Some(got) => {
            if &got != model {
                return Err(v("model-content", op, pre, format!("field prints {:?} (was {:?}) = {:?}; list-of-lists model says {:?}", text, before, field_text(&got), field_text(model))));
            }
        }
    }
    // (2) the implementation's own strict reader accepts it and shows the same structure
    let (re, errs) = Relations::parse_relaxed(&text, substvars);
    if !errs.is_empty() {
        return Err(v("restart-error", op, pre, format!("field prints {:?} (was {:?}); the strict reader reports {:?}", text, before, errs)));
    }
    if impl_structure(&re) != model_structure(model) {
        return Err(v("restart-content", op, pre, format!("field prints {:?}; re-read structure {:?}, model {:?}", text, impl_structure(&re), model_structure(model))));
    }
    if impl_structure(root) != model_structure(model) {
        return Err(v("model-handle", op, pre, format!("live root reports {:?}, model {:?} (text {:?})", impl_structure(root), model_structure(model), text)));
    }
    // (3) separators: inserted and removed as needed, never duplicated or dangling.
    //     (a) commas beyond the n-1 needed between n entries must not increase,
    //     (b) no new empty entry between two entries (",,").
    let extra = |t: &str, n: usize| t.matches(',').count() as isize - (n.max(1) as isize - 1);
    if extra(&text, model.len()) > extra(before, before_model.len()).max(0) {
        return Err(v("separator", op, pre, format!("superfluous separator: {:?} -> {:?}", before, text)));
    }
    let interior = |t: &str| {
        let p = pieces(t);
        if p.len() < 3 {
            0
        } else {
            p[1..p.len() - 1].iter().filter(|x| x.is_empty()).count()
        }
    };
    if interior(&text) > interior(before) {
        return Err(v("separator", op, pre, format!("duplicated separator: {:?} -> {:?}", before, text)));
    }
    // (4) untouched entries and substvars keep their text
    let bp: Vec<String> = pieces(before).into_iter().filter(|p| !p.is_empty()).collect();
    let ap: Vec<String> = pieces(&text).into_iter().filter(|p| !p.is_empty()).collect();
    if bp.len() == before_model.len() && ap.len() == model.len() {
        // align by model identity: `touched` lists indices in the AFTER model that were created / edited
        let untouched_after: Vec<&String> = ap.iter().enumerate().filter(|(i, _)| !touched.contains(i)).map(|x| x.1).collect();
        // every untouched piece must exist, in order, among the before pieces
        let mut j = 0;
        for u in untouched_after {
            while j < bp.len() && &bp[j] != u {
                j += 1;
            }
            if j == bp.len() {
                return Err(v("locality", op, pre, format!("untouched entry {:?} did not keep its text: {:?} -> {:?}", u, before, text)));
            }
            j += 1;
        }
    }
    Ok(())
}

fn gen_relspec(rng: &mut Rng, seq: usize) -> RelSpec {
    let f = grel::RelFlags { free_ws: rng.chance(1, 3), newlines: false, substvars: false, empty_entries: false, trailing_comma: false, epochs: rng.chance(1, 3), max_entries: 1, neg_archs: rng.chance(1, 2), empty_archs: false };
    let name = format!("{}{}", rng.s(grel::PKG), seq);
    let version = if rng.chance(1, 2) { Some((rng.s(grel::OPS).to_string(), grel::version(rng, f.epochs))) } else { None };
    match rng.below(5) {
        0 | 1 => {
            let t = grel::relation(rng, &f);
            // make the name unique so that each observed relation is attributable to one write
            let rest = t.trim_start_matches(|c: char| c.is_ascii_alphanumeric() || c == '-' || c == '.' || c == '+');
            // the parsed operand may carry whitespace around it
            let (lead, trail) = if rng.chance(1, 4) { (rng.s(&["", " ", "  ", "\t"]), rng.s(&["", " ", "  ", "\t"])) } else { ("", "") };
            RelSpec::Parse { text: format!("{lead}{name}{rest}{trail}") }
        }
        2 => RelSpec::New { name, version },
        3 => RelSpec::New { name, version: None },
        _ => RelSpec::Builder {
            name,
            version,
            archqual: if rng.chance(1, 4) { Some(rng.s(&["any", "native"]).to_string()) } else { None },
            archs: (0..rng.below(3)).map(|_| rng.s(grel::ARCHS).to_string()).collect(),
            profiles: (0..rng.below(2)).map(|_| (0..1 + rng.below(2)).map(|_| (rng.chance(1, 2), rng.s(grel::PROFILES).to_string())).collect()).collect(),
        },
    }
}

fn gen_entryspec(rng: &mut Rng, seq: usize) -> EntrySpec {
    if rng.chance(1, 2) {
        let n = 1 + rng.below(2);
        let parts: Vec<String> = (0..n)
            .map(|i| match gen_relspec(rng, seq * 10 + i) {
                RelSpec::Parse { text } => text,
                RelSpec::New { name, .. } | RelSpec::Builder { name, .. } => name,
            })
            .collect();
        EntrySpec::Parse { text: parts.join(rng.s(&[" | ", "|", " |  "])) }
    } else {
        EntrySpec::FromRelations { rels: (0..1 + rng.below(2)).map(|i| gen_relspec(rng, seq * 10 + i)).collect() }
    }
}

fn prestate(model: &FieldM, text: &str, extra: &str) -> String {
    // one structural class of the field plus the operation-specific predicate
    let n = n_alts(model);
    let base = if trailing_comma(text) {
        "trailing-comma"
    } else if empty_entries(text) > 0 {
        "empty-entries"
    } else if model.iter().any(|e| matches!(e, EntryM::Substvar(_))) {
        "substvar"
    } else {
        match n {
            0 => "empty-field",
            1 => "single-entry",
            _ => "multi-entry",
        }
    };
    if extra.is_empty() {
        base.to_string()
    } else {
        format!("{base}+{extra}")
    }
}

struct Live {
    root: Relations,
    model: FieldM,
    entries: BTreeMap<usize, EH>,
    rels: BTreeMap<usize, RH>,
}

impl Live {
    fn stale_all(&mut self) {
        for e in self.entries.values_mut() {
            e.fresh = false;
        }
        for r in self.rels.values_mut() {
            r.fresh = false;
        }
    }
    fn stale_entry_pos(&mut self, pos: usize, except_entry: Option<usize>) {
        for (id, e) in self.entries.iter_mut() {
            if e.pos == pos && Some(*id) != except_entry {
                e.fresh = false;
            }
        }
        for r in self.rels.values_mut() {
            if r.entry_pos == pos {
                r.fresh = false;
            }
        }
    }
    /// positions shift after a structural change at `pos` by `delta` (handles at pos itself already handled)
    fn shift_from(&mut self, pos: usize, delta: isize) {
        for e in self.entries.values_mut() {
            if e.fresh && e.pos >= pos {
                e.pos = (e.pos as isize + delta) as usize;
            }
        }
        for r in self.rels.values_mut() {
            if r.fresh && r.entry_pos >= pos {
                r.entry_pos = (r.entry_pos as isize + delta) as usize;
            }
        }
    }
}

fn run(c: &Case, obs: &mut Obs) -> Result<(), Violation> {
    let substvar0 = c.init.contains("${");
    let model0 = match parse_field(&c.init, true) {
        Some(m) => m,
        None => {
            obs.count("reach.init_skipped");
            return Ok(());
        }
    };
    probe::at("parse_relaxed(init)");
    let (root, errs) = Relations::parse_relaxed(&c.init, substvar0);
    if !errs.is_empty() || impl_structure(&root) != model_structure(&model0) {
        // C10's business (well-formed field not read as written): such a start state is skipped
        obs.count("reach.init_rejected_or_misread");
        return Ok(());
    }
    let (root, model0) = match c.init_how.as_str() {
        "from_entries" if !substvar0 => {
            probe::at("Relations::from(Vec<Entry>)");
            let entries: Vec<Entry> = root.entries().collect();
            let r = Relations::from(entries);
            obs.count("reach.init_from_entries");
            match parse_field(&r.to_string(), false) {
                Some(m) if impl_structure(&r) == model_structure(&m) && m == model0 => (r, m),
                _ => return Err(v("model-content", "from_entries", "constructor", format!("Relations::from(entries of {:?}) prints {:?}", c.init, r.to_string()))),
            }
        }
        "wrap_and_sort" if !substvar0 => {
            probe::at("wrap_and_sort");
            // what wrap_and_sort does (including whether its comparison is a total order) is C13, not claimed
            let r = match std::panic::catch_unwind(std::panic::AssertUnwindSafe(|| root.wrap_and_sort())) {
                Ok(r) => r,
                Err(_) => {
                    obs.count("reach.init_wrap_and_sort_panicked");
                    return Ok(());
                }
            };
            obs.count("reach.init_wrap_and_sort");
            match parse_field(&r.to_string(), false) {
                // what wrap_and_sort does to the content is C13 (not claimed): only a readable result is used
                Some(m) if impl_structure(&r) == model_structure(&m) => (r, m),
                // the tree wrap_and_sort hands out must at least agree with its own text, or every later edit
                // through it works on a different field than the one printed
                Some(m) => {
                    return Err(v("model-handle", "wrap_and_sort", "start-state", format!("wrap_and_sort of {:?} prints {:?} = {:?} but the live tree reports {:?}", c.init, r.to_string(), model_structure(&m), impl_structure(&r))));
                }
                None => {
                    obs.count("reach.init_rejected_or_misread");
                    return Ok(());
                }
            }
        }
        _ => (root, model0),
    };
    let mut l = Live { root, model: model0, entries: BTreeMap::new(), rels: BTreeMap::new() };
    let mut judged_mutations = 0;
    let mut through_handle = false;
    for ev in &c.events {
        obs.step();
        let kind = ev.kind();
        obs.count(&format!("op.{kind}"));
        let before = l.root.to_string();
        let before_model = l.model.clone();
        match ev {
            Ev::GetEntry { index, out } => {
                probe::at("get_entry");
                if let Some(e) = l.root.get_entry(*index) {
                    if alt_index(&l.model, *index).is_none() {
                        return Err(v("model-handle", kind, &prestate(&l.model, &before, ""), format!("get_entry({index}) is Some but the model has {} addressable entries (text {:?})", n_alts(&l.model), before)));
                    }
                    l.entries.insert(*out, EH { node: e, pos: *index, fresh: true });
                }
            }
            Ev::GetRelation { entry, index, out } => {
                if let Some(eh) = l.entries.get(entry) {
                    if !eh.fresh {
                        continue;
                    }
                    probe::at("get_relation");
                    if let Some(r) = eh.node.get_relation(*index) {
                        let (ep, fresh) = (eh.pos, eh.fresh);
                        l.rels.insert(*out, RH { node: r, entry_pos: ep, pos: *index, fresh });
                    }
                }
            }
            Ev::Restart => {
                obs.count("fault.restart");
                let substvars = l.model.iter().any(|e| matches!(e, EntryM::Substvar(_)));
                probe::at("restart");
                let (re, errs) = Relations::parse_relaxed(&before, substvars);
                if !errs.is_empty() {
                    return Err(v("restart-error", "restart", &prestate(&l.model, &before, ""), format!("persisted field {:?} does not re-read: {:?}", before, errs)));
                }
                l.root = re;
                l.entries.clear();
                l.rels.clear();
            }
            Ev::Push { entry } | Ev::Insert { entry, .. } | Ev::Replace { entry, .. } => {
                let (e, em) = match build_entry(entry) {
                    Some(x) => x,
                    None => continue,
                };
                let n = n_alts(&l.model);
                let pre;
                let touched;
                match ev {
                    Ev::Push { .. } => {
                        pre = prestate(&l.model, &before, "");
                        obs.prestate = pre.clone();
                        probe::at("push");
                        l.root.push(e);
                        l.model.push(em);
                        touched = vec![l.model.len() - 1];
                        l.stale_all();
                    }
                    Ev::Insert { index, .. } => {
                        pre = prestate(&l.model, &before, if *index >= n { "index-beyond-end" } else if *index == 0 { "index-0" } else { "index-mid" });
                        obs.prestate = pre.clone();
                        probe::at("insert");
                        l.root.insert(*index, e);
                        match alt_index(&l.model, *index) {
                            Some(mi) => {
                                l.model.insert(mi, em);
                                touched = vec![mi];
                            }
                            None => {
                                l.model.push(em);
                                touched = vec![l.model.len() - 1];
                            }
                        }
                        l.stale_all();
                    }
                    Ev::Replace { index, .. } => {
                        if *index >= n {
                            continue; // documented to panic out of range
                        }
                        pre = prestate(&l.model, &before, if *index == 0 { "index-0" } else if *index + 1 == n { "index-last" } else { "index-mid" });
                        obs.prestate = pre.clone();
                        probe::at("replace");
                        l.root.replace(*index, e);
                        let mi = alt_index(&l.model, *index).unwrap();
                        l.model[mi] = em;
                        touched = vec![mi];
                        l.stale_entry_pos(*index, None);
                    }
                    _ => unreachable!(),
                }
                judged_mutations += 1;
                check_root(&l.root, &l.model, &before, &touched, kind, &pre, &before_model)?;
            }
            Ev::RemoveEntry { index } => {
                let n = n_alts(&l.model);
                if *index >= n {
                    continue;
                }
                let pre = prestate(&l.model, &before, if *index == 0 { "index-0" } else if *index + 1 == n { "index-last" } else { "index-mid" });
                obs.prestate = pre.clone();
                probe::at("remove_entry");
                let _removed = l.root.remove_entry(*index);
                let mi = alt_index(&l.model, *index).unwrap();
                l.model.remove(mi);
                l.stale_entry_pos(*index, None);
                l.shift_from(*index + 1, -1);
                judged_mutations += 1;
                check_root(&l.root, &l.model, &before, &[], kind, &pre, &before_model)?;
            }
            Ev::EntryPush { entry, .. } | Ev::EntryReplace { entry, .. } | Ev::EntryRemoveRelation { entry, .. } | Ev::EntryRemove { entry } => {
                let (fresh, pos) = match l.entries.get(entry) {
                    Some(e) => (e.fresh, e.pos),
                    None => continue,
                };
                if !fresh {
                    // handle pre-dates a re-rooting of its ancestor: scheduled, not judged
                    obs.count("reach.step_through_stale_handle");
                    let eh = l.entries.get_mut(entry).unwrap();
                    let r = std::panic::catch_unwind(std::panic::AssertUnwindSafe(|| match ev {
                        Ev::EntryPush { rel, .. } => {
                            if let Some((r, _)) = build_rel(rel) {
                                eh.node.push(r)
                            }
                        }
                        Ev::EntryRemove { .. } => eh.node.remove(),
                        _ => {}
                    }));
                    if r.is_err() {
                        obs.count("reach.stale_handle_panicked");
                    }
                    l.entries.remove(entry);
                    if l.root.to_string() != before {
                        obs.count("reach.stale_handle_edit_visible_in_root");
                        // resynchronise the model with what the field now says, without a verdict
                        match parse_field(&l.root.to_string(), true) {
                            Some(m) => l.model = m,
                            None => return Ok(()),
                        }
                        l.stale_all();
                    }
                    continue;
                }
                let mi = match alt_index(&l.model, pos) {
                    Some(m) => m,
                    None => continue,
                };
                let nalts = match &l.model[mi] {
                    EntryM::Alts(a) => a.len(),
                    _ => 0,
                };
                through_handle = true;
                let aliases = l.entries.values().filter(|e| e.fresh && e.pos == pos).count();
                let extra = format!("handle-attached{}", if aliases > 1 { "+aliased" } else { "" });
                match ev {
                    Ev::EntryPush { rel, .. } => {
                        let (r, rm) = match build_rel(rel) {
                            Some(x) => x,
                            None => continue,
                        };
                        let pre = prestate(&l.model, &before, &extra);
                        obs.prestate = pre.clone();
                        probe::at("entry_push");
                        l.entries.get_mut(entry).unwrap().node.push(r);
                        if let EntryM::Alts(a) = &mut l.model[mi] {
                            a.push(rm);
                        }
                        l.stale_entry_pos(pos, Some(*entry));
                        judged_mutations += 1;
                        check_root(&l.root, &l.model, &before, &[mi], kind, &pre, &before_model)?;
                    }
                    Ev::EntryReplace { index, rel, .. } => {
                        if *index >= nalts {
                            continue;
                        }
                        let (r, rm) = match build_rel(rel) {
                            Some(x) => x,
                            None => continue,
                        };
                        let pre = prestate(&l.model, &before, &extra);
                        obs.prestate = pre.clone();
                        probe::at("entry_replace");
                        l.entries.get_mut(entry).unwrap().node.replace(*index, r);
                        if let EntryM::Alts(a) = &mut l.model[mi] {
                            a[*index] = rm;
                        }
                        for rh in l.rels.values_mut() {
                            if rh.entry_pos == pos && rh.pos == *index {
                                rh.fresh = false;
                            }
                        }
                        judged_mutations += 1;
                        check_root(&l.root, &l.model, &before, &[mi], kind, &pre, &before_model)?;
                    }
                    Ev::EntryRemoveRelation { index, .. } => {
                        if *index >= nalts {
                            continue;
                        }
                        let pre = prestate(&l.model, &before, &format!("{extra}{}", if nalts == 1 { "+only-alternative" } else if *index == 0 { "+first-alternative" } else { "" }));
                        obs.prestate = pre.clone();
                        probe::at("entry_remove_relation");
                        let _ = l.entries.get(entry).unwrap().node.remove_relation(*index);
                        let mut entry_gone = false;
                        if let EntryM::Alts(a) = &mut l.model[mi] {
                            a.remove(*index);
                            entry_gone = a.is_empty();
                        }
                        for rh in l.rels.values_mut() {
                            if rh.entry_pos == pos {
                                if rh.pos == *index {
                                    rh.fresh = false;
                                } else if rh.pos > *index {
                                    rh.pos -= 1;
                                }
                            }
                        }
                        if entry_gone {
                            l.model.remove(mi);
                            l.stale_entry_pos(pos, None);
                            l.shift_from(pos + 1, -1);
                        }
                        judged_mutations += 1;
                        check_root(&l.root, &l.model, &before, &[mi], kind, &pre, &before_model)?;
                    }
                    Ev::EntryRemove { .. } => {
                        let n = n_alts(&l.model);
                        let pre = prestate(&l.model, &before, &format!("{extra}{}", if pos == 0 { "+index-0" } else if pos + 1 == n { "+index-last" } else { "" }));
                        obs.prestate = pre.clone();
                        probe::at("entry_remove");
                        l.entries.get_mut(entry).unwrap().node.remove();
                        l.model.remove(mi);
                        l.stale_entry_pos(pos, None);
                        l.shift_from(pos + 1, -1);
                        judged_mutations += 1;
                        check_root(&l.root, &l.model, &before, &[], kind, &pre, &before_model)?;
                    }
                    _ => unreachable!(),
                }
            }
            Ev::SetVersion { rel, .. } | Ev::DropConstraint { rel } | Ev::SetArchqual { rel, .. } | Ev::SetArchitectures { rel, .. } | Ev::AddProfile { rel, .. } | Ev::RelRemove { rel } => {
                let (fresh, ep, rp) = match l.rels.get(rel) {
                    Some(r) => (r.fresh, r.entry_pos, r.pos),
                    None => continue,
                };
                if !fresh {
                    obs.count("reach.step_through_stale_handle");
                    let rh = l.rels.get_mut(rel).unwrap();
                    let r = std::panic::catch_unwind(std::panic::AssertUnwindSafe(|| match ev {
                        Ev::SetVersion { version, .. } => rh.node.set_version(version.as_ref().map(|(o, ver)| (vc_of(o), ver.parse().unwrap()))),
                        Ev::DropConstraint { .. } => {
                            rh.node.drop_constraint();
                        }
                        Ev::SetArchqual { archqual, .. } => rh.node.set_archqual(archqual),
                        _ => {}
                    }));
                    if r.is_err() {
                        obs.count("reach.stale_handle_panicked");
                    }
                    l.rels.remove(rel);
                    if l.root.to_string() != before {
                        obs.count("reach.stale_handle_edit_visible_in_root");
                        match parse_field(&l.root.to_string(), true) {
                            Some(m) => l.model = m,
                            None => return Ok(()),
                        }
                        l.stale_all();
                    }
                    continue;
                }
                let mi = match alt_index(&l.model, ep) {
                    Some(m) => m,
                    None => continue,
                };
                let nalts = match &l.model[mi] {
                    EntryM::Alts(a) => a.len(),
                    _ => 0,
                };
                if rp >= nalts {
                    continue;
                }
                through_handle = true;
                let cur = match &l.model[mi] {
                    EntryM::Alts(a) => a[rp].clone(),
                    _ => continue,
                };
                let mut extra = "handle-attached".to_string();
                let mut entry_gone = false;
                let pre;
                match ev {
                    Ev::SetVersion { version, .. } => {
                        extra.push_str(if cur.version.is_some() { "+has-version" } else { "+no-version-node" });
                        if let Some((o, ver)) = version {
                            extra.push_str(&format!("+op={o}{}", if ver.contains(':') { "+epoch" } else { "" }));
                        } else {
                            extra.push_str("+clear");
                        }
                        pre = prestate(&l.model, &before, &extra);
                        obs.prestate = pre.clone();
                        probe::at("set_version");
                        l.rels.get_mut(rel).unwrap().node.set_version(version.as_ref().map(|(o, ver)| (vc_of(o), ver.parse().unwrap())));
                        if let EntryM::Alts(a) = &mut l.model[mi] {
                            a[rp].version = version.clone();
                        }
                    }
                    Ev::DropConstraint { .. } => {
                        extra.push_str(if cur.version.is_some() { "+has-version" } else { "+no-version-node" });
                        pre = prestate(&l.model, &before, &extra);
                        obs.prestate = pre.clone();
                        probe::at("drop_constraint");
                        let had = l.rels.get_mut(rel).unwrap().node.drop_constraint();
                        if had != cur.version.is_some() {
                            return Err(v("model-content", kind, &pre, format!("drop_constraint returned {had}, the model relation {:?} (text {:?})", cur, before)));
                        }
                        if let EntryM::Alts(a) = &mut l.model[mi] {
                            a[rp].version = None;
                        }
                    }
                    Ev::SetArchqual { archqual, .. } => {
                        extra.push_str(if cur.archqual.is_some() { "+has-archqual" } else { "+no-archqual-node" });
                        pre = prestate(&l.model, &before, &extra);
                        obs.prestate = pre.clone();
                        probe::at("set_archqual");
                        l.rels.get_mut(rel).unwrap().node.set_archqual(archqual);
                        if let EntryM::Alts(a) = &mut l.model[mi] {
                            a[rp].archqual = Some(archqual.clone());
                        }
                    }
                    Ev::SetArchitectures { archs, .. } => {
                        extra.push_str(if cur.archs.is_some() { "+has-arch-node" } else { "+no-arch-node" });
                        pre = prestate(&l.model, &before, &extra);
                        obs.prestate = pre.clone();
                        probe::at("set_architectures");
                        l.rels.get_mut(rel).unwrap().node.set_architectures(archs.iter().map(|s| s.as_str()));
                        if let EntryM::Alts(a) = &mut l.model[mi] {
                            a[rp].archs = Some(archs.iter().map(|x| (false, x.clone())).collect());
                        }
                    }
                    Ev::AddProfile { profile, .. } => {
                        extra.push_str(if cur.profiles.is_empty() { "+no-profile-node" } else { "+has-profile-node" });
                        pre = prestate(&l.model, &before, &extra);
                        obs.prestate = pre.clone();
                        probe::at("add_profile");
                        let p: Vec<BuildProfile> = profile.iter().map(|(n, s)| if *n { BuildProfile::Disabled(s.clone()) } else { BuildProfile::Enabled(s.clone()) }).collect();
                        l.rels.get_mut(rel).unwrap().node.add_profile(&p);
                        if let EntryM::Alts(a) = &mut l.model[mi] {
                            a[rp].profiles.push(profile.clone());
                        }
                    }
                    Ev::RelRemove { .. } => {
                        extra.push_str(if nalts == 1 { "+only-alternative" } else if rp == 0 { "+first-alternative" } else { "+later-alternative" });
                        pre = prestate(&l.model, &before, &extra);
                        obs.prestate = pre.clone();
                        probe::at("relation_remove");
                        l.rels.get_mut(rel).unwrap().node.remove();
                        if let EntryM::Alts(a) = &mut l.model[mi] {
                            a.remove(rp);
                            entry_gone = a.is_empty();
                        }
                        for (id, rh) in l.rels.iter_mut() {
                            if rh.entry_pos == ep && id != rel {
                                if rh.pos == rp {
                                    rh.fresh = false;
                                } else if rh.pos > rp {
                                    rh.pos -= 1;
                                }
                            }
                        }
                        l.rels.get_mut(rel).unwrap().fresh = false;
                    }
                    _ => unreachable!(),
                }
                // other handles to the same relation may have been re-linked away
                for (id, rh) in l.rels.iter_mut() {
                    if id != rel && rh.entry_pos == ep && rh.pos == rp {
                        rh.fresh = false;
                    }
                }
                if entry_gone {
                    l.model.remove(mi);
                    l.stale_entry_pos(ep, None);
                    l.shift_from(ep + 1, -1);
                }
                judged_mutations += 1;
                check_root(&l.root, &l.model, &before, &[mi], kind, &pre, &before_model)?;
            }
        }
        let t = l.root.to_string();
        obs.event(&t);
        let shape: String = l.model.iter().map(|e| match e { EntryM::Alts(a) => a.len().to_string(), _ => "$".into() }).collect::<Vec<_>>().join(",");
        obs.state(key_of(&[&shape, kind, &(trailing_comma(&t) as u8).to_string(), &l.entries.values().filter(|e| e.fresh).count().to_string(), &l.rels.values().filter(|e| e.fresh).count().to_string()]));
    }
    if judged_mutations >= 1 && through_handle {
        obs.nontrivial = Some(key_of(&[&serde_json::to_string(c).unwrap()]));
    }
    Ok(())
}

impl Scenario for C11 {
    type Case = Case;
    const ID: &'static str = ID;
    const LEVEL: &'static str = "exploration";
    fn runs(tier: Tier) -> u64 {
        match tier {
            Tier::Quick => 400_000,
            Tier::Thorough => 8_000_000,
        }
    }
    fn rule() -> &'static str {
        "one case = an initial relationship field (empty, or generated well-formed text with free whitespace/newlines around separators, empty entries, trailing comma, substitution variables) plus a seeded schedule of 1-10 steps: the owner of the root pushes / inserts / replaces / removes entries (every index, in and out of range for insert), other clients obtain entry and relation handles at scheduled times and push / replace / remove alternatives, set / drop version constraints (all five operators, epochs), set the architecture qualifier, architecture list and build profiles, remove themselves; operands are built by parsing (free inner whitespace), by Relation::new/simple, Entry::from(Vec<Relation>) and RelationBuilder; restart = print and strict re-parse. After every judged step the printed root is read by an independent reference reader and by the strict reader and compared with the list-of-lists model, separators are checked lexically, untouched entries must keep their text. Steps through handles that pre-date a re-rooting of an ancestor are scheduled but not judged; non-trivial = at least one judged mutation through an entry/relation handle; distinct = FNV hash of the trace"
    }
    fn state_measure() -> &'static str {
        "distinct (alternatives-per-entry vector with substvar markers, last step kind, trailing comma, number of fresh entry handles, number of fresh relation handles) tuples"
    }
    fn assumptions() -> Vec<&'static str> {
        vec![
            "the list-of-lists model (DESIGN Appendix E) and the reference relation reader (model/relations.rs) are the oracle",
            "indices count addressable entries only; empty entries and substitution variables keep their place",
            "handles that pre-date a root-replacing operation on an ancestor are outside what the property's wording binds: such steps are scheduled (no panic containment verdict either) and reported as reach statistics only",
            "start states the strict reader rejects or reads differently from the reference reader are skipped (C10, not claimed)",
        ]
    }
    fn components() -> Value {
        json!({"real": ["debian_control::lossless::relations::{Relations, Entry, Relation, RelationBuilder} editing API, parser, Display", "rowan mutable + re-rooted green trees", "debversion"], "stub": ["the schedule of clients and handle acquisition", "getrandom"]})
    }

    fn generate(rng: &mut Rng, tier: Tier, _k: u64) -> Case {
        let f = grel::RelFlags::swarm(rng);
        let mut init = if rng.chance(1, 6) { String::new() } else { grel::field(rng, &f) };
        if rng.chance(1, 12) {
            // twins: a later entry that is one alternative short of an earlier one (edits through a handle must stay
            // with their entry even when the field holds an identical one)
            let a = grel::relation(rng, &grel::RelFlags::canonical());
            let b = grel::relation(rng, &grel::RelFlags::canonical());
            init = format!("{a} | {b}, {a}");
        }
        let mut model = parse_field(&init, true).unwrap_or_default();
        let steps = match tier {
            Tier::Quick => 1 + rng.below(8),
            Tier::Thorough => 1 + rng.below(12),
        };
        // swarm weights: get_entry get_relation push insert replace remove_entry entry_push entry_replace entry_remove_relation entry_remove set_version drop set_archqual set_archs add_profile rel_remove restart
        let mut w = [6u32, 6, 3, 3, 2, 2, 3, 2, 2, 1, 4, 2, 2, 2, 2, 2, 1];
        for x in w.iter_mut().skip(2) {
            if rng.chance(1, 4) {
                *x = 0;
            }
        }
        let mut ehandles: Vec<(usize, usize)> = vec![]; // (id, entry pos) believed fresh
        let mut rhandles: Vec<(usize, usize, usize)> = vec![];
        let mut next = 0usize;
        let mut events = vec![];
        for seq in 1..=steps {
            let n = n_alts(&model);
            let mut k = rng.weighted(&w);
            if n == 0 && !matches!(k, 2 | 3 | 16) {
                k = 2;
            }
            if ehandles.is_empty() && matches!(k, 1 | 6..=9) {
                k = 0;
            }
            if rhandles.is_empty() && matches!(k, 10..=15) {
                k = if ehandles.is_empty() { 0 } else { 1 };
            }
            let ev = match k {
                0 => {
                    let index = if rng.chance(1, 10) { n } else { rng.below(n.max(1)) };
                    next += 1;
                    if index < n {
                        ehandles.push((next, index));
                    }
                    Ev::GetEntry { index, out: next }
                }
                1 => {
                    let (eid, ep) = ehandles[rng.below(ehandles.len())];
                    let na = alt_index(&model, ep).map(|mi| match &model[mi] { EntryM::Alts(a) => a.len(), _ => 0 }).unwrap_or(0);
                    let index = rng.below(na.max(1));
                    next += 1;
                    if index < na {
                        rhandles.push((next, ep, index));
                    }
                    Ev::GetRelation { entry: eid, index, out: next }
                }
                2 | 3 | 4 => {
                    let entry = gen_entryspec(rng, seq);
                    let em = match build_entry_model(&entry) {
                        Some(m) => m,
                        None => continue,
                    };
                    match k {
                        2 => {
                            model.push(em);
                            ehandles.clear();
                            rhandles.clear();
                            Ev::Push { entry }
                        }
                        3 => {
                            let index = if rng.chance(1, 5) { n + rng.below(2) } else { rng.below(n + 1) };
                            match alt_index(&model, index) {
                                Some(mi) => model.insert(mi, em),
                                None => model.push(em),
                            }
                            // a seeded fraction of runs keeps scheduling through the now stale handles
                            if !rng.chance(1, 6) {
                                ehandles.clear();
                                rhandles.clear();
                            }
                            Ev::Insert { index, entry }
                        }
                        _ => {
                            if n == 0 {
                                continue;
                            }
                            let index = rng.below(n);
                            let mi = alt_index(&model, index).unwrap();
                            model[mi] = em;
                            ehandles.retain(|h| h.1 != index);
                            rhandles.retain(|h| h.1 != index);
                            Ev::Replace { index, entry }
                        }
                    }
                }
                5 => {
                    let index = rng.below(n);
                    let mi = alt_index(&model, index).unwrap();
                    model.remove(mi);
                    ehandles.retain(|h| h.1 != index);
                    rhandles.retain(|h| h.1 != index);
                    for h in ehandles.iter_mut() {
                        if h.1 > index {
                            h.1 -= 1;
                        }
                    }
                    for h in rhandles.iter_mut() {
                        if h.1 > index {
                            h.1 -= 1;
                        }
                    }
                    Ev::RemoveEntry { index }
                }
                6..=9 => {
                    let (eid, ep) = ehandles[rng.below(ehandles.len())];
                    let mi = match alt_index(&model, ep) {
                        Some(m) => m,
                        None => continue,
                    };
                    let na = match &model[mi] {
                        EntryM::Alts(a) => a.len(),
                        _ => 0,
                    };
                    match k {
                        6 => {
                            let mut rel = gen_relspec(rng, seq);
                            // now and then the alternative that makes this entry the twin of another one
                            if rng.chance(1, 3) {
                                if let EntryM::Alts(mine) = &model[mi] {
                                    let twin = model.iter().enumerate().find_map(|(j, e)| match e {
                                        EntryM::Alts(o) if j != mi && o.len() == mine.len() + 1 && o[..mine.len()] == mine[..] => Some(o[mine.len()].text()),
                                        _ => None,
                                    });
                                    if let Some(t) = twin {
                                        rel = RelSpec::Parse { text: t };
                                    }
                                }
                            }
                            if let (Some(rm), EntryM::Alts(a)) = (build_rel_model(&rel), &mut model[mi]) {
                                a.push(rm);
                            }
                            ehandles.retain(|h| h.1 != ep || h.0 == eid);
                            rhandles.retain(|h| h.1 != ep);
                            Ev::EntryPush { entry: eid, rel }
                        }
                        7 => {
                            let index = rng.below(na.max(1));
                            let mut rel = gen_relspec(rng, seq);
                            // now and then a replacement that differs from the current alternative only in spelling (architecture
                            // order, an explicit zero epoch): it compares equal as a dependency and is still a different text
                            if rng.chance(1, 4) {
                                if let EntryM::Alts(a) = &model[mi] {
                                    if let Some(cur) = a.get(index) {
                                        let mut r = cur.clone();
                                        let mut changed = false;
                                        if let Some(archs) = &mut r.archs {
                                            if archs.len() >= 2 && archs.first() != archs.last() {
                                                archs.reverse();
                                                changed = true;
                                            }
                                        }
                                        if !changed {
                                            if let Some((_, ver)) = &mut r.version {
                                                if !ver.contains(':') {
                                                    *ver = format!("0:{ver}");
                                                    changed = true;
                                                }
                                            }
                                        }
                                        if changed {
                                            rel = RelSpec::Parse { text: r.text() };
                                        }
                                    }
                                }
                            }
                            if let (Some(rm), EntryM::Alts(a)) = (build_rel_model(&rel), &mut model[mi]) {
                                if index < a.len() {
                                    a[index] = rm;
                                }
                            }
                            rhandles.retain(|h| !(h.1 == ep && h.2 == index));
                            Ev::EntryReplace { entry: eid, index, rel }
                        }
                        8 => {
                            let index = rng.below(na.max(1));
                            let mut gone = false;
                            if let EntryM::Alts(a) = &mut model[mi] {
                                if index < a.len() {
                                    a.remove(index);
                                    gone = a.is_empty();
                                }
                            }
                            rhandles.retain(|h| !(h.1 == ep && h.2 == index));
                            for h in rhandles.iter_mut() {
                                if h.1 == ep && h.2 > index {
                                    h.2 -= 1;
                                }
                            }
                            if gone {
                                model.remove(mi);
                                ehandles.retain(|h| h.1 != ep);
                                rhandles.retain(|h| h.1 != ep);
                                for h in ehandles.iter_mut() {
                                    if h.1 > ep {
                                        h.1 -= 1;
                                    }
                                }
                                for h in rhandles.iter_mut() {
                                    if h.1 > ep {
                                        h.1 -= 1;
                                    }
                                }
                            }
                            Ev::EntryRemoveRelation { entry: eid, index }
                        }
                        _ => {
                            model.remove(mi);
                            ehandles.retain(|h| h.1 != ep);
                            rhandles.retain(|h| h.1 != ep);
                            for h in ehandles.iter_mut() {
                                if h.1 > ep {
                                    h.1 -= 1;
                                }
                            }
                            for h in rhandles.iter_mut() {
                                if h.1 > ep {
                                    h.1 -= 1;
                                }
                            }
                            Ev::EntryRemove { entry: eid }
                        }
                    }
                }
                10..=15 => {
                    let hi = rng.below(rhandles.len());
                    let (rid, ep, rp) = rhandles[hi];
                    let mi = match alt_index(&model, ep) {
                        Some(m) => m,
                        None => continue,
                    };
                    let rm: &mut Rel = match &mut model[mi] {
                        EntryM::Alts(a) if rp < a.len() => &mut a[rp],
                        _ => continue,
                    };
                    match k {
                        10 => {
                            let version = if rng.chance(1, 5) {
                                None
                            } else if let (Some((op0, v0)), true) = (rm.version.clone(), rng.chance(1, 3)) {
                                // keep the version, change only the operator (or nothing at all)
                                let ops: Vec<&str> = grel::OPS.iter().cloned().filter(|o| *o != op0 || rng.chance(1, 4)).collect();
                                Some((rng.s(&ops).to_string(), v0))
                            } else {
                                Some((rng.s(grel::OPS).to_string(), format!("{}.{seq}", grel::version(rng, true))))
                            };
                            rm.version = version.clone();
                            Ev::SetVersion { rel: rid, version }
                        }
                        11 => {
                            rm.version = None;
                            Ev::DropConstraint { rel: rid }
                        }
                        12 => {
                            let a = rng.s(&["any", "native", "amd64"]).to_string();
                            rm.archqual = Some(a.clone());
                            Ev::SetArchqual { rel: rid, archqual: a }
                        }
                        13 => {
                            let archs: Vec<String> = (0..1 + rng.below(3)).map(|_| rng.s(grel::ARCHS).to_string()).collect();
                            rm.archs = Some(archs.iter().map(|x| (false, x.clone())).collect());
                            Ev::SetArchitectures { rel: rid, archs }
                        }
                        14 => {
                            let profile: Vec<(bool, String)> = (0..1 + rng.below(2)).map(|_| (rng.chance(1, 2), rng.s(grel::PROFILES).to_string())).collect();
                            rm.profiles.push(profile.clone());
                            Ev::AddProfile { rel: rid, profile }
                        }
                        _ => {
                            let mut gone = false;
                            if let EntryM::Alts(a) = &mut model[mi] {
                                a.remove(rp);
                                gone = a.is_empty();
                            }
                            rhandles.retain(|h| !(h.1 == ep && h.2 == rp));
                            for h in rhandles.iter_mut() {
                                if h.1 == ep && h.2 > rp {
                                    h.2 -= 1;
                                }
                            }
                            if gone {
                                model.remove(mi);
                                ehandles.retain(|h| h.1 != ep);
                                rhandles.retain(|h| h.1 != ep);
                                for h in ehandles.iter_mut() {
                                    if h.1 > ep {
                                        h.1 -= 1;
                                    }
                                }
                                for h in rhandles.iter_mut() {
                                    if h.1 > ep {
                                        h.1 -= 1;
                                    }
                                }
                            }
                            Ev::RelRemove { rel: rid }
                        }
                    }
                }
                _ => {
                    ehandles.clear();
                    rhandles.clear();
                    Ev::Restart
                }
            };
            events.push(ev);
        }
        let init_how = match rng.below(8) {
            0 => "from_entries",
            1 => "wrap_and_sort",
            _ => "parse",
        }
        .to_string();
        Case { init, init_how, events }
    }

    fn execute(c: &Case, obs: &mut Obs) -> Result<(), Violation> {
        run(c, obs)
    }

    fn shrink(c: &Case) -> Vec<Case> {
        let mut out = vec![];
        let n = c.events.len();
        if c.init_how != "parse" && !c.init_how.is_empty() {
            out.push(Case { init: c.init.clone(), init_how: "parse".into(), events: c.events.clone() });
        }
        if n > 1 {
            out.push(Case { init: c.init.clone(), init_how: c.init_how.clone(), events: c.events[..n / 2].to_vec() });
        }
        for i in 0..n {
            let mut e = c.events.clone();
            e.remove(i);
            out.push(Case { init: c.init.clone(), init_how: c.init_how.clone(), events: e });
        }
        // shrink the initial field: drop entries, then canonicalise layout
        if let Some(m) = parse_field(&c.init, true) {
            for i in 0..m.len() {
                let mut mm = m.clone();
                mm.remove(i);
                let mut t = field_text(&mm);
                if trailing_comma(&c.init) && !t.is_empty() {
                    t.push(',');
                }
                out.push(Case { init: t, init_how: c.init_how.clone(), events: c.events.clone() });
            }
            let canon = field_text(&m);
            if canon != c.init {
                out.push(Case { init: canon.clone(), init_how: c.init_how.clone(), events: c.events.clone() });
                if trailing_comma(&c.init) {
                    out.push(Case { init: format!("{canon},"), init_how: c.init_how.clone(), events: c.events.clone() });
                }
            }
            // simplify single relations of the initial field
            for i in 0..m.len() {
                if let EntryM::Alts(a) = &m[i] {
                    for j in 0..a.len() {
                        let simple = Rel::simple(&a[j].name);
                        if a[j] != simple {
                            let mut mm = m.clone();
                            if let EntryM::Alts(x) = &mut mm[i] {
                                x[j] = simple;
                            }
                            out.push(Case { init: field_text(&mm), init_how: c.init_how.clone(), events: c.events.clone() });
                        }
                    }
                }
            }
        }
        // simplify operands
        for i in 0..n {
            let simpler: Option<Ev> = match &c.events[i] {
                Ev::Push { entry } => simplify_entry(entry).map(|e| Ev::Push { entry: e }),
                Ev::Insert { index, entry } => simplify_entry(entry).map(|e| Ev::Insert { index: *index, entry: e }),
                Ev::Replace { index, entry } => simplify_entry(entry).map(|e| Ev::Replace { index: *index, entry: e }),
                Ev::EntryPush { entry, rel } => simplify_rel(rel).map(|r| Ev::EntryPush { entry: *entry, rel: r }),
                Ev::EntryReplace { entry, index, rel } => simplify_rel(rel).map(|r| Ev::EntryReplace { entry: *entry, index: *index, rel: r }),
                _ => None,
            };
            if let Some(s) = simpler {
                let mut e = c.events.clone();
                e[i] = s;
                out.push(Case { init: c.init.clone(), init_how: c.init_how.clone(), events: e });
            }
        }
        out
    }
}

fn build_rel_model(s: &RelSpec) -> Option<Rel> {
    match s {
        RelSpec::Parse { text } => parse_rel(text),
        RelSpec::New { name, version } => Some(Rel { version: version.clone(), ..Rel::simple(name) }),
        RelSpec::Builder { name, version, archqual, archs, profiles } => Some(Rel {
            name: name.clone(),
            archqual: archqual.clone(),
            version: version.clone(),
            archs: if archs.is_empty() { None } else { Some(archs.iter().map(|a| (false, a.clone())).collect()) },
            profiles: profiles.clone(),
        }),
    }
}

fn build_entry_model(s: &EntrySpec) -> Option<EntryM> {
    match s {
        EntrySpec::Parse { text } => {
            let m = parse_field(text, false)?;
            if m.len() == 1 {
                Some(m[0].clone())
            } else {
                None
            }
        }
        EntrySpec::FromRelations { rels } => {
            let ms: Option<Vec<Rel>> = rels.iter().map(build_rel_model).collect();
            let ms = ms?;
            if ms.is_empty() {
                None
            } else {
                Some(EntryM::Alts(ms))
            }
        }
    }
}

fn simplify_rel(r: &RelSpec) -> Option<RelSpec> {
    let name = match r {
        RelSpec::Parse { text } => parse_rel(text)?.name,
        RelSpec::New { name, .. } | RelSpec::Builder { name, .. } => name.clone(),
    };
    let simple = RelSpec::Parse { text: name };
    if serde_json::to_string(r).ok()? == serde_json::to_string(&simple).ok()? {
        None
    } else {
        Some(simple)
    }
}

fn simplify_entry(e: &EntrySpec) -> Option<EntrySpec> {
    match e {
        EntrySpec::Parse { text } => {
            let m = parse_field(text, false)?;
            if let Some(EntryM::Alts(a)) = m.first() {
                let t = a[0].name.clone();
                if &t != text {
                    return Some(EntrySpec::Parse { text: t });
                }
            }
            None
        }
        EntrySpec::FromRelations { rels } => {
            if rels.len() > 1 {
                return Some(EntrySpec::FromRelations { rels: rels[..1].to_vec() });
            }
            simplify_rel(&rels[0]).map(|r| EntrySpec::FromRelations { rels: vec![r] })
        }
    }
}
