//! C02 — every text-parsing entry point is total under storage/transport faults.
use crate::core::alloc;
use crate::core::driver::{key_of, Obs, Scenario, Tier, Violation};
use crate::core::io::{gen_read_plan, shrink_read_plan, ReadPlan, SimReader};
use crate::core::probe;
use crate::core::rng::Rng;
use crate::gen::{text, typed};
use serde::{Deserialize, Serialize};
use serde_json::{json, Value};
use std::str::FromStr;

pub struct C02;
const ID: &str = "C02";

#[derive(Clone, Debug, Serialize, Deserialize)]
pub struct Case {
    pub kind: String,
    pub text: String,
    pub faults: Vec<String>,
    /// repeat the text this many times (scaling probe for the resource budget)
    pub repeat: usize,
    pub plan: ReadPlan,
    /// restrict to one entry point (used by the shrinker / replays); None = all
    pub only: Option<String>,
}

type Ep = (&'static str, fn(&str));

macro_rules! fs {
    ($t:ty) => {
        |s: &str| {
            let _ = <$t as FromStr>::from_str(s);
        }
    };
}

/// Every &str entry point named by the property.
pub fn entry_points() -> Vec<Ep> {
    use debian_control::fields as f;
    vec![
        ("deb822_lossless::Deb822::from_str", fs!(deb822_lossless::Deb822)),
        ("deb822_lossless::Deb822::from_str_relaxed", |s| {
            let _ = deb822_lossless::Deb822::from_str_relaxed(s);
        }),
        ("deb822_lossless::Paragraph::from_str", fs!(deb822_lossless::Paragraph)),
        ("deb822_lossless::lossy::Deb822::from_str", fs!(deb822_lossless::lossy::Deb822)),
        ("deb822_lossless::lossy::Paragraph::from_str", fs!(deb822_lossless::lossy::Paragraph)),
        ("lossless::Relations::from_str", fs!(debian_control::lossless::relations::Relations)),
        ("lossless::Relations::parse_relaxed(false)", |s| {
            let _ = debian_control::lossless::relations::Relations::parse_relaxed(s, false);
        }),
        ("lossless::Relations::parse_relaxed(true)", |s| {
            let _ = debian_control::lossless::relations::Relations::parse_relaxed(s, true);
        }),
        ("lossless::Entry::from_str", fs!(debian_control::lossless::relations::Entry)),
        ("lossless::Relation::from_str", fs!(debian_control::lossless::relations::Relation)),
        ("lossy::Relations::from_str", fs!(debian_control::lossy::Relations)),
        ("lossy::Relation::from_str", fs!(debian_control::lossy::Relation)),
        ("lossy::Control::from_str", fs!(debian_control::lossy::Control)),
        ("lossy::apt::Release::from_paragraph(lossy)", |s| {
            use deb822_lossless::FromDeb822Paragraph;
            if let Ok(p) = s.parse::<deb822_lossless::lossy::Paragraph>() {
                let _ = debian_control::lossy::apt::Release::from_paragraph(&p);
            }
        }),
        ("lossy::apt::Source::from_str", fs!(debian_control::lossy::apt::Source)),
        ("lossy::apt::Package::from_str", fs!(debian_control::lossy::apt::Package)),
        ("lossy::buildinfo::Buildinfo::from_str", fs!(debian_control::lossy::buildinfo::Buildinfo)),
        ("lossy::ftpmaster::Removal::from_str", fs!(debian_control::lossy::ftpmaster::Removal)),
        ("lossless::Control::from_str", fs!(debian_control::lossless::Control)),
        ("lossless::apt::Source::from_str", fs!(debian_control::lossless::apt::Source)),
        ("lossless::apt::Package::from_str", fs!(debian_control::lossless::apt::Package)),
        ("lossless::apt::Release::from_str", fs!(debian_control::lossless::apt::Release)),
        ("lossless::buildinfo::Buildinfo::from_str", fs!(debian_control::lossless::buildinfo::Buildinfo)),
        ("lossless::changes::File::from_str", fs!(debian_control::lossless::changes::File)),
        ("pgp::strip_pgp_signature", |s| {
            let _ = debian_control::pgp::strip_pgp_signature(s);
        }),
        ("vcs::ParsedVcs::from_str", fs!(debian_control::vcs::ParsedVcs)),
        ("vcs::Vcs::from_field(Git)", |s| {
            let _ = debian_control::vcs::Vcs::from_field("Git", s);
        }),
        ("vcs::Vcs::from_field(Bzr)", |s| {
            let _ = debian_control::vcs::Vcs::from_field("Bzr", s);
        }),
        ("vcs::Vcs::from_field(Cvs)", |s| {
            let _ = debian_control::vcs::Vcs::from_field("Cvs", s);
        }),
        ("vcs::Vcs::from_field(Hg)", |s| {
            let _ = debian_control::vcs::Vcs::from_field("Hg", s);
        }),
        ("vcs::Vcs::from_field(Svn)", |s| {
            let _ = debian_control::vcs::Vcs::from_field("Svn", s);
        }),
        ("vcs::Vcs::from_field(<text>)", |s| {
            let _ = debian_control::vcs::Vcs::from_field(s, s);
        }),
        ("parse_identity", |s| {
            let _ = debian_control::parse_identity(s);
        }),
        ("fields::Priority::from_str", fs!(f::Priority)),
        ("fields::Sha1Checksum::from_str", fs!(f::Sha1Checksum)),
        ("fields::Sha256Checksum::from_str", fs!(f::Sha256Checksum)),
        ("fields::Sha512Checksum::from_str", fs!(f::Sha512Checksum)),
        ("fields::Md5Checksum::from_str", fs!(f::Md5Checksum)),
        ("fields::PackageListEntry::from_str", fs!(f::PackageListEntry)),
        ("fields::Urgency::from_str", fs!(f::Urgency)),
        ("fields::MultiArch::from_str", fs!(f::MultiArch)),
        ("relations::BuildProfile::from_str", fs!(debian_control::relations::BuildProfile)),
        ("relations::VersionConstraint::from_str", fs!(debian_control::relations::VersionConstraint)),
        ("debian_copyright::lossless::Copyright::from_str", fs!(debian_copyright::lossless::Copyright)),
        ("debian_copyright::lossless::Copyright::from_str_relaxed", |s| {
            let _ = debian_copyright::lossless::Copyright::from_str_relaxed(s);
        }),
        ("debian_copyright::lossy::Copyright::from_str", fs!(debian_copyright::lossy::Copyright)),
        ("debian_copyright::License::from_str", fs!(debian_copyright::License)),
        ("dep3::lossless::PatchHeader::from_str", fs!(dep3::lossless::PatchHeader)),
        ("dep3::lossy::PatchHeader::from_str", fs!(dep3::lossy::PatchHeader)),
        ("dep3::Forwarded::from_str", fs!(dep3::Forwarded)),
        ("dep3::OriginCategory::from_str", fs!(dep3::OriginCategory)),
        ("dep3::Origin::from_str", fs!(dep3::Origin)),
        ("dep3::AppliedUpstream::from_str", fs!(dep3::AppliedUpstream)),
        ("apt_sources::Repositories::from_str", fs!(apt_sources::Repositories)),
        ("apt_sources::RepositoryType::from_str", fs!(apt_sources::RepositoryType)),
        ("apt_sources::YesNoForce::from_str", fs!(apt_sources::YesNoForce)),
        ("apt_sources::signature::Signature::from_str", fs!(apt_sources::signature::Signature)),
    ]
}

type Rp = (&'static str, fn(&mut SimReader));

pub fn reader_entry_points() -> Vec<Rp> {
    vec![
        ("Deb822::read", |r| {
            let _ = deb822_lossless::Deb822::read(r);
        }),
        ("Deb822::read_relaxed", |r| {
            let _ = deb822_lossless::Deb822::read_relaxed(r);
        }),
        ("lossy::Deb822::from_reader", |r| {
            let _ = deb822_lossless::lossy::Deb822::from_reader(r);
        }),
        ("Control::read", |r| {
            let _ = debian_control::lossless::Control::read(r);
        }),
        ("Control::read_relaxed", |r| {
            let _ = debian_control::lossless::Control::read_relaxed(r);
        }),
        ("Changes::read", |r| {
            let _ = debian_control::lossless::changes::Changes::read(r);
        }),
        ("Changes::read_relaxed", |r| {
            let _ = debian_control::lossless::changes::Changes::read_relaxed(r);
        }),
    ]
}

/// Resource budget for one call on an input of n bytes (generous polynomial; see DESIGN §1.6).
fn budget(n: usize) -> (u64, u64) {
    let n = n as u64 + 16;
    (20_000 + 600 * n, (4 << 20) + 16_384 * n + 64 * n * n)
}

fn full_text(c: &Case) -> String {
    if c.repeat <= 1 {
        c.text.clone()
    } else {
        c.text.repeat(c.repeat)
    }
}

fn v(clause: &str, op: &str, pre: &str, detail: String) -> Violation {
    Violation::new(ID, clause, op, pre, detail)
}

impl Scenario for C02 {
    type Case = Case;
    const ID: &'static str = ID;
    const LEVEL: &'static str = "fault_enumeration";

    fn runs(tier: Tier) -> u64 {
        match tier {
            Tier::Quick => 200_000,
            Tier::Thorough => 2_500_000,
        }
    }
    fn rule() -> &'static str {
        "one case = one well-formed instance of one artefact kind (deb822, relations with/without substvars, control, apt Release/Sources/Packages, changes, buildinfo, removal, copyright, DEP-3, APT sources, clear-signed message, VCS value, identity, typed field value), damaged by 1-3 construct-aware storage/transport faults (truncate, drop/dup/swap lines, hostile character, CRLF, junk tail, stripped final newline) - in the thorough tier every 64th case instead enumerates EVERY truncation offset of its instance - and handed to ALL 57 &str entry points plus the 7 Read-based ones under a seeded delivery plan; oracle = returns (no panic), allocations within a polynomial budget, no abort, no hang; non-trivial = at least one fault applied and text non-empty; distinct = FNV hash of (kind, text, repeat)"
    }
    fn state_measure() -> &'static str {
        "distinct (artefact kind x fault kind) pairs exercised, plus (lexer-state x character class) pairs of the damaged text"
    }
    fn assumptions() -> Vec<&'static str> {
        vec![
            "time bound is decided through allocation counts (deterministic) and a 20 s watchdog (backstop); CPU-only super-linear behaviour below the watchdog is not detected",
            "third-party parsers reached through entry points (debversion, url, chrono, regex) run real; a panic inside them counts",
            "getters that unwrap() parsed values are not entry points in the property's sense and are not called",
        ]
    }
    fn components() -> Value {
        json!({"real": ["all five workspace crates' parsing entry points (64)", "rowan, regex, debversion, url, chrono", "std::io::Read::read_to_string"],
               "stub": ["storage/transport that damages the text (fault injector)", "byte source behind Read (SimReader)", "getrandom"]})
    }

    fn generate(rng: &mut Rng, tier: Tier, k: u64) -> Case {
        let kind = *rng.pick(typed::KINDS);
        let mut t = typed::instance(rng, kind);
        let mut faults = vec![];
        let enumerate_truncations = tier == Tier::Thorough && rng.chance(1, 64) && t.len() <= 320;
        let _ = k;
        if enumerate_truncations {
            faults.push("truncate_all".to_string());
        } else if rng.chance(9, 10) {
            for _ in 0..1 + rng.below(3) {
                faults.push(text::text_fault(rng, &mut t).to_string());
            }
        }
        let repeat = if !enumerate_truncations && rng.chance(1, 40) { 2 + rng.below(40) } else { 1 };
        let faulty = rng.chance(1, 4);
        let plan = gen_read_plan(rng, t.len() * repeat, faulty);
        Case { kind: kind.to_string(), text: t, faults, repeat, plan, only: None }
    }

    fn execute(c: &Case, obs: &mut Obs) -> Result<(), Violation> {
        let base = full_text(c);
        let mut variants: Vec<String> = Vec::new();
        if c.faults.iter().any(|f| f == "truncate_all") {
            for (i, _) in base.char_indices() {
                variants.push(base[..i].to_string());
                if i > 0 {
                    variants.push(format!("{}\n", &base[..i]));
                }
                obs.count("fault.truncate");
            }
            variants.push(base.clone());
        } else {
            variants.push(base.clone());
            for f in &c.faults {
                obs.count(&format!("fault.{f}"));
                obs.state(key_of(&[&c.kind, f]));
            }
        }
        if c.repeat > 1 {
            obs.count("reach.repeated_instance");
        }
        let eps = entry_points();
        let reps = reader_entry_points();
        for t in &variants {
            let (max_allocs, max_bytes) = budget(t.len());
            let pre = if t.is_ascii() { "ascii" } else { "non-ascii" };
            obs.prestate = pre.to_string();
            for (label, f) in &eps {
                if let Some(o) = &c.only {
                    if o != label {
                        continue;
                    }
                }
                probe::at(label);
                let ((), m) = alloc::metered(|| f(t));
                obs.step();
                if m.allocs > max_allocs || m.bytes_total > max_bytes {
                    return Err(v("budget", label, pre, format!("input of {} bytes: {} allocations / {} bytes requested (budget {} / {})", t.len(), m.allocs, m.bytes_total, max_allocs, max_bytes)));
                }
            }
            for (label, f) in &reps {
                if let Some(o) = &c.only {
                    if o != label {
                        continue;
                    }
                }
                probe::at(label);
                let mut r = SimReader::new(t.as_bytes(), &c.plan);
                let ((), m) = alloc::metered(|| f(&mut r));
                obs.step();
                obs.io(&r.fired);
                if m.allocs > max_allocs || m.bytes_total > max_bytes {
                    return Err(v("budget", label, pre, format!("input of {} bytes: {} allocations / {} bytes requested", t.len(), m.allocs, m.bytes_total)));
                }
            }
        }
        obs.count(&format!("reach.kind_{}", c.kind.replace('-', "_")));
        if variants.len() == 1 {
            for sc in text::state_class_pairs(&variants[0]).into_iter().take(400) {
                obs.state(1000 + sc as u64);
            }
        }
        if !c.faults.is_empty() && !c.text.is_empty() {
            obs.nontrivial = Some(key_of(&[&c.kind, &c.text, &c.repeat.to_string()]));
        }
        obs.event(&format!("{}:{}", c.kind, variants.len()));
        Ok(())
    }

    fn shrink(c: &Case) -> Vec<Case> {
        let mut out = Vec::new();
        if c.only.is_none() {
            // narrow to the entry point that failed: try each (cheap: one call per candidate)
            for (l, _) in entry_points() {
                out.push(Case { only: Some(l.to_string()), ..c.clone() });
            }
            for (l, _) in reader_entry_points() {
                out.push(Case { only: Some(l.to_string()), ..c.clone() });
            }
            return out;
        }
        if c.faults.iter().any(|f| f == "truncate_all") {
            // materialise: replace the enumeration by single truncations
            let base = full_text(c);
            for (i, _) in base.char_indices() {
                out.push(Case { text: base[..i].to_string(), repeat: 1, faults: vec!["truncate".into()], ..c.clone() });
                out.push(Case { text: format!("{}\n", &base[..i]), repeat: 1, faults: vec!["truncate".into()], ..c.clone() });
            }
            return out;
        }
        if c.repeat > 1 {
            out.push(Case { repeat: 1, ..c.clone() });
            out.push(Case { repeat: c.repeat / 2, ..c.clone() });
        }
        for p in shrink_read_plan(&c.plan) {
            out.push(Case { plan: p, ..c.clone() });
        }
        for t in text::shrink_text(&c.text) {
            let mut n = Case { text: t, ..c.clone() };
            if let Some(cut) = &mut n.plan.cut {
                cut.at = cut.at.min(n.text.len() * n.repeat.max(1));
            }
            out.push(n);
        }
        out
    }

    fn stack_bytes() -> usize {
        // "never exhausts the stack": a parser whose recursion depth grows with the input overflows this
        // at the few thousand repetitions the long_run fault inserts; the unmodified parsers are iterative
        256 << 10
    }

    fn crash_prestate(c: &Case, _label: &str) -> String {
        if full_text(c).is_ascii() { "ascii".into() } else { "non-ascii".into() }
    }
}
