//! C19 — PGP clear-sign unwrapping under every truncation point and trailing addition.
use crate::core::driver::{key_of, Obs, Scenario, Tier, Violation};
use crate::core::probe;
use crate::core::rng::Rng;
use crate::gen::text;
use debian_control::pgp::{strip_pgp_signature, Error as PgpError};
use serde::{Deserialize, Serialize};
use serde_json::{json, Value};

pub struct C19;
const ID: &str = "C19";

const BEGIN_MSG: &str = "-----BEGIN PGP SIGNED MESSAGE-----";
const BEGIN_SIG: &str = "-----BEGIN PGP SIGNATURE-----";
const END_SIG: &str = "-----END PGP SIGNATURE-----";

#[derive(Clone, Debug, Serialize, Deserialize)]
pub struct Case {
    pub headers: Vec<String>,
    pub payload: Vec<String>,
    pub signature: Vec<String>,
    /// each trailer is a list of extra lines the link carries on with after the end marker
    pub trailers: Vec<Vec<String>>,
    /// unsigned texts (first line is not the marker)
    pub unsigned: Vec<String>,
    /// restrict the enumerated cut offsets to lo..hi (used by the shrinker); None = every offset
    pub cut_range: Option<(usize, usize)>,
    /// which delivery classes are exercised: subset of full, cuts, trailers, nofinalnl, unsigned
    pub classes: Vec<String>,
    /// some payload lines end in CR (the transport used CR LF for them); such messages are only
    /// delivered complete, and the marker line followed by CR is tried as an unsigned text
    #[serde(default)]
    pub cr: bool,
}

fn wrap(c: &Case) -> String {
    let mut s = String::new();
    s.push_str(BEGIN_MSG);
    s.push('\n');
    for h in &c.headers {
        s.push_str(h);
        s.push('\n');
    }
    s.push('\n');
    for p in &c.payload {
        s.push_str(p);
        s.push('\n');
    }
    s.push_str(BEGIN_SIG);
    s.push('\n');
    for l in &c.signature {
        s.push_str(l);
        s.push('\n');
    }
    s.push_str(END_SIG);
    s.push('\n');
    s
}

#[derive(Debug, PartialEq, Clone)]
enum Expect {
    Pass,
    MissingPayload,
    MissingSignature,
    Truncated,
    Junk,
    Signed(String, String),
}

impl Expect {
    fn class(&self) -> &'static str {
        match self {
            Expect::Pass => "expect-passthrough",
            Expect::MissingPayload => "expect-missing-payload",
            Expect::MissingSignature => "expect-missing-signature",
            Expect::Truncated => "expect-truncated-signature",
            Expect::Junk => "expect-junk-after-signature",
            Expect::Signed(..) => "expect-signed",
        }
    }
}

/// Reference state machine over what the client received (written from the property text).
fn reference(received: &str) -> Expect {
    let mut lines: Vec<&str> = received.split('\n').collect();
    if received.ends_with('\n') || received.is_empty() {
        lines.pop();
    }
    if lines.is_empty() || lines[0] != BEGIN_MSG {
        return Expect::Pass;
    }
    let mut i = 1;
    loop {
        if i >= lines.len() {
            return Expect::MissingPayload;
        }
        let l = lines[i];
        i += 1;
        if l.is_empty() {
            break;
        }
    }
    let mut payload = String::new();
    loop {
        if i >= lines.len() {
            return Expect::MissingSignature;
        }
        let l = lines[i];
        i += 1;
        if l == BEGIN_SIG {
            break;
        }
        payload.push_str(l);
        payload.push('\n');
    }
    let mut sig = String::new();
    loop {
        if i >= lines.len() {
            return Expect::Truncated;
        }
        let l = lines[i];
        i += 1;
        if l == END_SIG {
            break;
        }
        sig.push_str(l);
    }
    if i < lines.len() {
        return Expect::Junk;
    }
    Expect::Signed(payload, sig)
}

fn actual_class(r: &Result<(String, Option<String>), PgpError>) -> String {
    match r {
        Ok((_, None)) => "passthrough".into(),
        Ok((_, Some(_))) => "signed".into(),
        Err(e) => format!("{e:?}"),
    }
}

fn line(rng: &mut Rng, kind: u8) -> String {
    // kind 0 = payload (may be empty, never starts with '-'), 1 = header (non-empty), 2 = signature (may be empty, never the end marker)
    let lookalikes = [
        " -----BEGIN PGP SIGNATURE-----",
        "-----BEGIN PGP SIGNATURE----",
        "-----begin pgp signature-----",
        "x-----BEGIN PGP SIGNATURE-----",
        "-----BEGIN PGP SIGNATURE----- ",
        "-----BEGIN PGP SIGNATURE-----",
        "-----END PGP SIGNATURE-----",
        " -----END PGP SIGNATURE-----",
        "-----END PGP SIGNATURE----- ",
        "-----BEGIN PGP SIGNED MESSAGE-----",
        "- -----BEGIN PGP SIGNATURE-----",
        // a marker has exactly five dashes on each side
        "------END PGP SIGNATURE------",
        "------END PGP SIGNATURE-----",
        "-----END PGP SIGNATURE------",
        "------BEGIN PGP SIGNATURE-----",
        "-----BEGIN PGP SIGNATURE-------",
        "----------",
        "-----END PGP SIGNATURE----------BEGIN PGP SIGNATURE-----",
        "Hash: SHA256",
        "Package: foo",
        " continuation",
        "# comment",
        "\u{85}",
        "a\u{2028}b",
        "\u{c}",
        " ",
        "\t",
    ];
    let mut s = match rng.below(10) {
        0 if kind != 1 => String::new(),
        1 | 2 => rng.pick(&lookalikes).to_string(),
        3 => format!("{}: {}", text::name(rng, false), text::value_line(rng, true, false)),
        4 => "iQIzBAEBCAAdFiEEpyNohvPMyq0Uiif4DphATThvodkFAmbJ6swACgkQDphATThv"[..1 + rng.below(60)].to_string(),
        _ => {
            let na = rng.chance(1, 2);
            text::value_line(rng, na, false)
        }
    };
    if kind == 0 && s.starts_with('-') {
        s.insert(0, ' ');
    }
    if kind == 1 && s.is_empty() {
        s.push('H');
    }
    if kind == 2 && s == END_SIG {
        s.push('=');
    }
    s
}

fn v(clause: &str, op: &str, pre: &str, detail: String) -> Violation {
    Violation::new(ID, clause, op, pre, detail)
}

fn check(received: &str, kind: &str, full_payload: Option<&str>, obs: &mut Obs) -> Result<(), Violation> {
    check_tagged(received, kind, full_payload, "", obs)
}

fn check_tagged(received: &str, kind: &str, full_payload: Option<&str>, tag: &str, obs: &mut Obs) -> Result<(), Violation> {
    let exp = reference(received);
    probe::at("strip_pgp_signature");
    obs.prestate = format!("{kind}:{}{tag}", exp.class());
    let cls = format!("{}{tag}", exp.class());
    let got = strip_pgp_signature(received);
    obs.step();
    obs.count(&format!("reach.{}", exp.class().replace('-', "_")));
    obs.state(key_of(&[kind, exp.class()]));
    // central safety clause, checked directly
    if let (Ok((p, Some(_))), Some(fp)) = (&got, full_payload) {
        if p != fp {
            return Err(v("pgp-payload", kind, &cls, format!("received {:?}: a payload {:?} was presented as validly signed, the signed payload is {:?}", received, p, fp)));
        }
    }
    let ok = match (&exp, &got) {
        (Expect::Pass, Ok((t, None))) => {
            if t != received {
                return Err(v("pgp-passthrough", kind, &cls, format!("unsigned text {:?} came back as {:?}", received, t)));
            }
            true
        }
        (Expect::MissingPayload, Err(PgpError::MissingPayload)) => true,
        (Expect::MissingSignature, Err(PgpError::MissingPgpSignature)) => true,
        (Expect::Truncated, Err(PgpError::TruncatedPgpSignature)) => true,
        (Expect::Junk, Err(PgpError::JunkAfterPgpSignature)) => true,
        (Expect::Signed(p, s), Ok((gp, Some(gs)))) => {
            if p != gp {
                return Err(v("pgp-payload", kind, &cls, format!("received {:?}: payload {:?}, expected {:?}", received, gp, p)));
            }
            if s != gs {
                return Err(v("pgp-signature", kind, &cls, format!("received {:?}: signature {:?}, expected {:?}", received, gs, s)));
            }
            true
        }
        _ => false,
    };
    if !ok {
        return Err(v("pgp-outcome", kind, &cls, format!("received {:?}: got {}, reference says {}", received, actual_class(&got), exp.class())));
    }
    obs.event(exp.class());
    Ok(())
}

impl Scenario for C19 {
    type Case = Case;
    const ID: &'static str = ID;
    const LEVEL: &'static str = "fault_enumeration";

    fn runs(tier: Tier) -> u64 {
        match tier {
            Tier::Quick => 40_000,
            Tier::Thorough => 1_500_000,
        }
    }
    fn rule() -> &'static str {
        "one case = one clear-signed message (0-3 armour headers, 0-6 payload lines incl. blank lines / marker look-alikes / deb822 content / Unicode separators, 0-4 signature lines) delivered over a link that is cut after EVERY character offset (enumerated, not sampled: stronger than the property's line boundaries), delivered complete, without its final newline, and followed by 1-3 generated trailers; plus unsigned texts incl. every proper prefix of the marker line; evaluations = messages, the counter 'deliveries' = calls of strip_pgp_signature; non-trivial = message has at least one payload line and the enumerated cuts reached at least three different expected outcome classes; distinct = FNV hash of the message"
    }
    fn state_measure() -> &'static str {
        "distinct (delivery kind x expected outcome class) pairs"
    }
    fn assumptions() -> Vec<&'static str> {
        vec![
            "strip_pgp_signature takes &str, so a delivery schedule collapses to the received prefix; cuts are enumerated at every char boundary of every message",
            "a CR inside a line is not in the line alphabet; a payload line may end in CR (CR LF line ends), and that case is the listed known finding: str::lines strips the CR from the returned payload",
            "the reference state machine is written from the property text and is the oracle for which error matches which cut",
        ]
    }
    fn components() -> Value {
        json!({"real": ["debian_control::pgp::strip_pgp_signature", "str::lines"], "stub": ["the link carrying the InRelease bytes (prefix / trailer model)", "getrandom (hasher seeds; unused by this code path)"]})
    }
    fn exhaustive(_t: Tier) -> bool {
        false
    }

    fn generate(rng: &mut Rng, _tier: Tier, _k: u64) -> Case {
        let nh = if rng.chance(1, 12) { 4 + rng.below(40) } else { rng.below(4) };
        let np = if rng.chance(1, 8) { 0 } else { rng.below(7) };
        let ns = rng.below(5);
        let headers = (0..nh).map(|_| line(rng, 1)).collect();
        let payload = (0..np).map(|_| line(rng, 0)).collect();
        let signature = (0..ns).map(|_| line(rng, 2)).collect();
        let nt = 1 + rng.below(3);
        let mut trailers = Vec::new();
        for _ in 0..nt {
            let n = 1 + rng.below(3);
            let t: Vec<String> = (0..n)
                .map(|_| match rng.below(6) {
                    0 => String::new(),
                    1 => BEGIN_MSG.to_string(),
                    2 => END_SIG.to_string(),
                    3 => BEGIN_SIG.to_string(),
                    _ => line(rng, 2),
                })
                .collect();
            trailers.push(t);
        }
        let mut unsigned = Vec::new();
        let cutm = rng.below(BEGIN_MSG.len());
        unsigned.push(format!("{}\nOrigin: Debian\n", &BEGIN_MSG[..cutm]));
        unsigned.push(BEGIN_MSG[..cutm].to_string());
        unsigned.push(format!(" {BEGIN_MSG}\nHash: SHA256\n\nx\n{BEGIN_SIG}\n{END_SIG}\n"));
        unsigned.push(format!("{BEGIN_MSG} \n\nx\n{BEGIN_SIG}\n{END_SIG}\n"));
        unsigned.push(format!("\n{BEGIN_MSG}\n\nx\n{BEGIN_SIG}\n{END_SIG}\n"));
        unsigned.push(format!("{}\n\nx\n{BEGIN_SIG}\n{END_SIG}\n", BEGIN_MSG.to_lowercase()));
        // the marker decorated with invisible or blank characters is NOT the marker
        let deco = rng.s(&["\u{feff}", "\u{200b}", "\u{a0}", "\u{2028}", "\u{85}", "\t", "\u{c}", "\u{3000}", "\u{b}"]);
        if rng.chance(1, 2) {
            unsigned.push(format!("{deco}{BEGIN_MSG}\nHash: SHA256\n\nx\n{BEGIN_SIG}\n{END_SIG}\n"));
        } else {
            unsigned.push(format!("{BEGIN_MSG}{deco}\nHash: SHA256\n\nx\n{BEGIN_SIG}\n{END_SIG}\n"));
        }
        // more or fewer than five dashes on either side is not the marker
        let (dl, dr) = [(6, 5), (5, 6), (6, 6), (4, 5), (5, 4), (7, 5), (10, 10)][rng.below(7)];
        unsigned.push(format!("{}BEGIN PGP SIGNED MESSAGE{}\nHash: SHA256\n\nx\n{BEGIN_SIG}\n{END_SIG}\n", "-".repeat(dl), "-".repeat(dr)));
        // unsigned text with CR LF line ends comes back unchanged too (the first line is not the marker)
        unsigned.push("Origin: Debian\r\nLabel: Debian\r\n\r\nx\r\n".to_string());
        unsigned.push(format!("x\r\n{BEGIN_MSG}\r\n\r\ny\r\n"));
        let f = text::DocFlags::swarm(rng);
        let d = text::doc(rng, &f);
        if !d.starts_with(BEGIN_MSG) {
            unsigned.push(d);
        }
        unsigned.push(String::new());
        let cr = rng.chance(1, 12);
        let mut payload: Vec<String> = payload;
        if cr {
            if payload.is_empty() {
                payload.push("Origin: Debian".to_string());
            }
            let k = rng.below(payload.len());
            for (i, l) in payload.iter_mut().enumerate() {
                if i == k || rng.chance(1, 2) {
                    l.push('\r');
                }
            }
        }
        Case {
            headers,
            payload,
            signature,
            trailers,
            unsigned,
            cut_range: None,
            classes: if cr { vec!["full".into()] } else { vec!["full".into(), "cuts".into(), "trailers".into(), "nofinalnl".into(), "unsigned".into()] },
            cr,
        }
    }

    fn execute(c: &Case, obs: &mut Obs) -> Result<(), Violation> {
        let msg = wrap(c);
        let full_payload: String = c.payload.iter().map(|l| format!("{l}\n")).collect();
        let has = |k: &str| c.classes.iter().any(|x| x == k);
        let mut deliveries = 0u64;
        let mut classes_seen = std::collections::BTreeSet::new();
        if c.cr {
            // CR at the end of a payload line is payload: "LF-terminated lines that need no dash-escaping"
            obs.count("reach.payload_line_ends_in_cr");
            if has("full") {
                check_tagged(&msg, "full", Some(&full_payload), "+cr-line", obs)?;
            }
            obs.add("deliveries", 1);
            return Ok(());
        }
        if has("full") {
            let exp = reference(&msg);
            let want = Expect::Signed(full_payload.clone(), c.signature.concat());
            if exp != want {
                // the reference itself must agree with the construction; otherwise the generator left the domain
                return Err(v("harness", "full", "reference-disagrees", format!("reference gives {:?} for a freshly wrapped message {:?}", exp, msg)));
            }
            check(&msg, "full", Some(&full_payload), obs)?;
            deliveries += 1;
        }
        if has("cuts") {
            let (lo, hi) = c.cut_range.unwrap_or((0, msg.len()));
            for k in lo..hi.min(msg.len()) {
                if !msg.is_char_boundary(k) {
                    continue;
                }
                let received = &msg[..k];
                classes_seen.insert(reference(received).class());
                obs.count("fault.truncate");
                if !received.ends_with('\n') && k > 0 {
                    obs.count("fault.truncate_mid_line");
                }
                check(received, "cut", Some(&full_payload), obs)?;
                deliveries += 1;
            }
        }
        if has("nofinalnl") {
            obs.count("fault.strip_final_newline");
            check(&msg[..msg.len() - 1], "nofinalnl", Some(&full_payload), obs)?;
            deliveries += 1;
        }
        if has("trailers") {
            for t in &c.trailers {
                let mut m = msg.clone();
                for l in t {
                    m.push_str(l);
                    m.push('\n');
                }
                obs.count("fault.junk_tail");
                check(&m, "trailer", Some(&full_payload), obs)?;
                deliveries += 1;
                // the link may also die inside the trailer
                if !t.is_empty() {
                    let m2 = &m[..m.len() - 1];
                    check(m2, "trailer", Some(&full_payload), obs)?;
                    deliveries += 1;
                }
            }
        }
        if has("unsigned") {
            for u in &c.unsigned {
                check(u, "unsigned", None, obs)?;
                deliveries += 1;
            }
        }
        obs.add("deliveries", deliveries);
        if !c.payload.is_empty() && classes_seen.len() >= 3 {
            obs.nontrivial = Some(key_of(&[&msg]));
        }
        Ok(())
    }

    fn shrink(c: &Case) -> Vec<Case> {
        let mut out = Vec::new();
        if c.classes.len() > 1 {
            for k in &c.classes {
                out.push(Case { classes: vec![k.clone()], ..c.clone() });
            }
        }
        let len = wrap(c).len();
        let (lo, hi) = c.cut_range.unwrap_or((0, len));
        if hi > lo + 1 && c.classes.iter().any(|x| x == "cuts") {
            let mid = (lo + hi) / 2;
            out.push(Case { cut_range: Some((lo, mid)), ..c.clone() });
            out.push(Case { cut_range: Some((mid, hi)), ..c.clone() });
        }
        macro_rules! drop_each {
            ($field:ident) => {
                for i in 0..c.$field.len() {
                    let mut n = c.clone();
                    n.$field.remove(i);
                    n.cut_range = None;
                    out.push(n);
                }
            };
        }
        drop_each!(payload);
        drop_each!(headers);
        drop_each!(signature);
        drop_each!(trailers);
        drop_each!(unsigned);
        macro_rules! simplify_each {
            ($field:ident, $repl:expr) => {
                for i in 0..c.$field.len() {
                    if c.$field[i] != $repl {
                        let mut n = c.clone();
                        n.$field[i] = $repl.to_string();
                        n.cut_range = None;
                        out.push(n);
                    }
                }
            };
        }
        simplify_each!(payload, "p");
        simplify_each!(headers, "h");
        simplify_each!(signature, "s");
        out
    }

    fn crash_prestate(_c: &Case, _label: &str) -> String {
        "message".into()
    }
}
