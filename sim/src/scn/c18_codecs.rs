//! C18 — typed field values round-trip through text, across hash epochs.
//! Only PackageListEntry (HashMap-ordered Display) can change with a hasher seed; every other row
//! is a table-driven check that runs because the workload is free (DESIGN §2 C18, honest limit).
use crate::core::driver::{key_of, Obs, Scenario, Tier, Violation};
use crate::core::hashseed::in_epoch;
use crate::core::probe;
use crate::core::rng::Rng;
use serde::{Deserialize, Serialize};
use serde_json::{json, Value};
use std::fmt::Debug;
use std::str::FromStr;

pub struct C18;
const ID: &str = "C18";

#[derive(Clone, Debug, Serialize, Deserialize)]
pub struct Case {
    /// type row
    pub ty: String,
    /// "value" (parse(print(v)) == v, prints stable), "canonical" (print(parse(s)) == s), "unknown" (parse is Err)
    pub mode: String,
    /// components the value / text is assembled from
    pub args: Vec<String>,
    /// hasher seeds of the print / parse / re-print epochs
    pub epochs: [u64; 3],
    /// an odd but whitespace-free token used where the type takes an arbitrary token (file names, extra values, sections)
    #[serde(default)]
    pub odd: Option<String>,
}

fn v(clause: &str, op: &str, pre: &str, detail: String) -> Violation {
    Violation::new(ID, clause, op, pre, detail)
}

/// value -> text (epoch 0) -> value (epoch 1) -> text (epoch 2)
fn cycle<T>(ty: &str, val: T, epochs: [u64; 3], print: fn(&T) -> String, parse: fn(&str) -> Result<T, String>, pre: &str) -> Result<(), Violation>
where
    T: PartialEq + Debug + Clone + Send + 'static,
{
    let v0 = val.clone();
    let t0 = in_epoch(epochs[0], move || print(&v0));
    let t0c = t0.clone();
    let parsed = in_epoch(epochs[1], move || parse(&t0c));
    let parsed = match parsed {
        Ok(p) => p,
        Err(e) => return Err(v("value-equality", ty, pre, format!("{:?} prints {:?} which is rejected: {}", val, t0, e))),
    };
    if parsed != val {
        return Err(v("value-equality", ty, pre, format!("{:?} prints {:?} which parses to {:?}", val, t0, parsed)));
    }
    let t1 = in_epoch(epochs[2], move || print(&parsed));
    if t1 != t0 {
        return Err(v("print-stability", ty, pre, format!("{:?} printed {:?} under hash seed {:#x} and {:?} after a re-parse under hash seed {:#x}", val, t0, epochs[0], t1, epochs[2])));
    }
    Ok(())
}

/// canonical text -> value (epoch 1) -> text (epoch 2) must be the same text
fn canonical<T>(ty: &str, s: &str, epochs: [u64; 3], print: fn(&T) -> String, parse: fn(&str) -> Result<T, String>, pre: &str) -> Result<(), Violation>
where
    T: Debug + Send + 'static,
{
    let sc = s.to_string();
    let parsed = in_epoch(epochs[1], move || parse(&sc));
    let parsed = match parsed {
        Ok(p) => p,
        Err(e) => return Err(v("canonical-text", ty, pre, format!("canonical text {:?} rejected: {}", s, e))),
    };
    let dbg = format!("{:?}", parsed);
    let t = in_epoch(epochs[2], move || print(&parsed));
    if t != s {
        return Err(v("canonical-text", ty, pre, format!("canonical text {:?} parsed to {} which prints {:?} (hash seeds {:#x}/{:#x})", s, dbg, t, epochs[1], epochs[2])));
    }
    Ok(())
}

fn must_reject<T: Debug>(ty: &str, s: &str, parse: fn(&str) -> Result<T, String>) -> Result<(), Violation> {
    match parse(s) {
        Err(_) => Ok(()),
        Ok(x) => Err(v("unknown-accepted", ty, "unknown-keyword", format!("{:?} is outside the defined set but parsed to {:?}", s, x))),
    }
}

macro_rules! p {
    ($t:ty) => {
        (|x: &$t| x.to_string()) as fn(&$t) -> String
    };
}
macro_rules! q {
    ($t:ty) => {
        (|s: &str| <$t as FromStr>::from_str(s).map_err(|e| format!("{:?}", e))) as fn(&str) -> Result<$t, String>
    };
}

pub const TYPES: &[&str] = &[
    "Priority", "MultiArch", "Urgency", "Sha1Checksum", "Sha256Checksum", "Sha512Checksum", "Md5Checksum", "PackageListEntry", "changes::File", "VersionConstraint", "BuildProfile",
    "ParsedVcs", "Vcs", "Forwarded", "OriginCategory", "Origin", "AppliedUpstream", "PatchHeader.Origin", "License", "RepositoryType", "YesNoForce", "Signature", "Repository.Types",
];

fn tok(rng: &mut Rng) -> String {
    let n = 1 + rng.below(10);
    // a third of the tokens carry upper-case letters: nothing in these records folds case
    let upper = rng.chance(1, 3);
    let t: String = (0..n)
        .map(|i| {
            let c = rng.below(40);
            match c {
                0..=25 => (b'a' + c as u8) as char,
                26..=35 => (b'0' + (c - 26) as u8) as char,
                36 => '.',
                37 => '/',
                38 if i > 0 => '-',
                _ => '_',
            }
        })
        .collect();
    if upper {
        t.chars().enumerate().map(|(i, c)| if i % 2 == 0 { c.to_ascii_uppercase() } else { c }).collect()
    } else {
        t
    }
}

fn unknown_word(rng: &mut Rng) -> String {
    rng.pick(&[
        "", "foo", "Required", "optional ", " extra", "yes please", "same ", "ALLOWED", "urgent", "deb-bin", "DEB", "forced", "<", ">", "==", "=>", "backports", "vendor,", "0", "-", "none", "unknown",
        "default", "any", "all", "n/a", "source", "true", "false", "1", "opt", "optionalx", "xoptional", "standard\t", "low!", "deb deb-src", "Yes", "NO", "!", "?", "*",
    ])
    .to_string()
}

impl Scenario for C18 {
    type Case = Case;
    const ID: &'static str = ID;
    const LEVEL: &'static str = "exploration";
    fn runs(tier: Tier) -> u64 {
        match tier {
            Tier::Quick => 150_000,
            Tier::Thorough => 3_000_000,
        }
    }
    fn rule() -> &'static str {
        "one case = one typed value (22 type rows: enumerations exhaustively over runs, records over whitespace-free tokens and integers, VCS locations over every branch/subpath combination, DEP-3 values with every category prefix) printed in hash epoch 1, parsed in epoch 2 (fresh thread, fresh RandomState keys drawn from the run's PRNG through the interposed getrandom), printed again in epoch 3; or a canonical text parsed and printed across epochs; or a keyword outside the defined set that must be rejected; non-trivial = a PackageListEntry with >= 2 extras (the only row whose outcome can depend on a hasher seed); distinct = FNV hash of (type, mode, args)"
    }
    fn state_measure() -> &'static str {
        "distinct (type row x mode) pairs, plus distinct extras-count classes for PackageListEntry"
    }
    fn assumptions() -> Vec<&'static str> {
        vec![
            "for every row except PackageListEntry no schedule or seed can change the outcome: those rows are seeded sampling, not what the technique is for",
            "std's RandomState keys are made a scheduled choice by interposing the weak getrandom symbol; one fresh thread per epoch",
            "case variants of Urgency keywords are not counted as 'outside the defined set' (Debian treats urgency case-insensitively)",
            "values are assembled from components that do not imitate another variant's text form: a forwarded reference is not the word 'no' or 'not-needed', an origin text does not start with 'commit:' or a category word, a licence name is not empty, a profile name does not start with '!', a VCS branch is not bracketed or empty - two distinct values of these public types print alike there, which no reader can undo",
        ]
    }
    fn components() -> Value {
        json!({"real": ["debian_control::fields::*, relations::{VersionConstraint, BuildProfile}, vcs::{ParsedVcs, Vcs}, lossless::changes::File", "dep3 field types and lossy::PatchHeader Origin codec", "debian_copyright::License", "apt_sources::{RepositoryType, YesNoForce, signature::Signature}", "std HashMap/RandomState"],
               "stub": ["getrandom (hasher seeds per epoch)"]})
    }

    fn generate(rng: &mut Rng, _tier: Tier, k: u64) -> Case {
        // PackageListEntry gets a third of the budget: it is the seed-dependent row
        let ty = if rng.chance(1, 3) { "PackageListEntry" } else { TYPES[(k as usize) % TYPES.len()] };
        let mode = match rng.below(10) {
            0 => "unknown",
            1..=4 => "canonical",
            _ => "value",
        };
        let n = 2 + rng.below(9);
        let mut args: Vec<String> = (0..n).map(|_| tok(rng)).collect();
        // a selector for enumerations / variants, and numbers where needed
        args.insert(0, rng.below(1000).to_string());
        args.insert(1, rng.pick(&["0", "1", "42", "1024", "99999999"]).to_string());
        if mode == "unknown" {
            args[2] = unknown_word(rng);
            // a valid keyword of the row with something attached: still not a keyword
            let kws: &[&str] = match ty {
                "Priority" => &["required", "important", "standard", "optional", "extra"],
                "MultiArch" => &["same", "foreign", "no", "allowed"],
                "Urgency" => &["low", "medium", "high", "emergency", "critical"],
                "VersionConstraint" => &["<<", "<=", "=", ">=", ">>"],
                "RepositoryType" => &["deb", "deb-src"],
                "YesNoForce" => &["yes", "no", "force"],
                "OriginCategory" => &["backport", "vendor", "upstream", "other"],
                _ => &[],
            };
            if !kws.is_empty() && rng.chance(1, 6) {
                // a keyword with one letter replaced by a character that upper- or lower-cases to it (dotless i, long s,
                // Kelvin sign): equal only after a Unicode case mapping
                let kw = rng.s(kws).to_string();
                let swapped: String = kw.chars().map(|c| match c { 'i' => '\u{131}', 's' => '\u{17f}', 'k' => '\u{212a}', o => o }).collect();
                if swapped != kw {
                    args[2] = swapped;
                }
            } else if !kws.is_empty() && rng.chance(1, 2) {
                let kw = rng.s(kws).to_string();
                let deco = rng.s(&[" (HIGH for users)", " (x)", " (", "(x)", " x", " ;", ";", ",", ", x", "=1", "/x", ":", " #c", "\nx", " -", "!", "?", "'", "\""]);
                args[2] = if rng.chance(1, 8) { format!("{}{}", deco.trim_start(), kw) } else { format!("{kw}{deco}") };
                if args[2] == kw || kws.contains(&args[2].as_str()) {
                    args[2] = format!("{kw}~");
                }
            }
        }
        let odd = if rng.chance(1, 6) { Some(rng.pick(&["a=b", "=", "x=", "-", "commit:1", "é", "a,b", "[x]", "<y>", "a:b", "!", "1:2-3", "%20", "#", "=="]).to_string()) } else { None };
        Case { ty: ty.to_string(), mode: mode.to_string(), args, epochs: [rng.next_u64(), rng.next_u64(), rng.next_u64()], odd }
    }

    fn execute(c: &Case, obs: &mut Obs) -> Result<(), Violation> {
        use debian_control::fields as f;
        let mut a_owned = c.args.clone();
        if a_owned.len() < 4 {
            return Ok(());
        }
        let odd_ok = matches!(c.ty.as_str(), "Sha1Checksum" | "Sha256Checksum" | "Sha512Checksum" | "Md5Checksum" | "changes::File");
        if let (Some(o), true) = (&c.odd, odd_ok) {
            let last = a_owned.len() - 1;
            a_owned[3] = o.clone();
            a_owned[last] = o.clone();
        }
        let a = &a_owned;
        let sel: usize = a[0].parse().unwrap_or(0);
        let num: usize = a[1].parse().unwrap_or(0);
        let e = c.epochs;
        let has_rejection = matches!(c.ty.as_str(), "Priority" | "MultiArch" | "Urgency" | "Sha1Checksum" | "Sha256Checksum" | "Sha512Checksum" | "Md5Checksum" | "PackageListEntry" | "changes::File" | "VersionConstraint" | "RepositoryType" | "YesNoForce" | "OriginCategory" | "Vcs");
        let mode = if c.mode == "unknown" && !has_rejection { "value" } else { c.mode.as_str() };
        if c.mode == "unknown" && !has_rejection {
            return Ok(()); // the type accepts any text: no rejection clause to check
        }
        obs.step();
        obs.count("fault.hash_reseed");
        obs.count(&format!("op.{}", c.ty));
        obs.state(key_of(&[&c.ty, mode]));
        probe::at(Box::leak(c.ty.clone().into_boxed_str()));
        obs.prestate = mode.to_string();
        macro_rules! enum_row {
            ($t:ty, $variants:expr) => {{
                let vs = $variants;
                match mode {
                    "unknown" => must_reject::<$t>(&c.ty, &a[2], q!($t)),
                    "canonical" => {
                        let val = &vs[sel % vs.len()];
                        canonical::<$t>(&c.ty, &val.to_string(), e, p!($t), q!($t), mode)
                    }
                    _ => cycle::<$t>(&c.ty, vs[sel % vs.len()].clone(), e, p!($t), q!($t), mode),
                }
            }};
        }
        match c.ty.as_str() {
            "Priority" => enum_row!(f::Priority, [f::Priority::Required, f::Priority::Important, f::Priority::Standard, f::Priority::Optional, f::Priority::Extra]),
            "Urgency" => enum_row!(f::Urgency, [f::Urgency::Low, f::Urgency::Medium, f::Urgency::High, f::Urgency::Emergency, f::Urgency::Critical]),
            "VersionConstraint" => {
                use debian_control::relations::VersionConstraint as VC;
                enum_row!(VC, [VC::LessThan, VC::LessThanEqual, VC::Equal, VC::GreaterThan, VC::GreaterThanEqual])
            }
            "RepositoryType" => {
                use apt_sources::RepositoryType as RT;
                enum_row!(RT, [RT::Binary, RT::Source])
            }
            "OriginCategory" => {
                use dep3::OriginCategory as OC;
                enum_row!(OC, [OC::Backport, OC::Vendor, OC::Upstream, OC::Other])
            }
            "MultiArch" => {
                // no Clone / no Eq beyond PartialEq: go through text
                let names = ["same", "foreign", "no", "allowed"];
                match mode {
                    "unknown" => must_reject::<f::MultiArch>(&c.ty, &a[2], q!(f::MultiArch)),
                    _ => canonical::<f::MultiArch>(&c.ty, names[sel % 4], e, p!(f::MultiArch), q!(f::MultiArch), mode),
                }
            }
            "YesNoForce" => {
                use apt_sources::YesNoForce as Y;
                let pr: fn(&Y) -> String = |x| (&x).to_string();
                match mode {
                    "unknown" => must_reject::<Y>(&c.ty, &a[2], q!(Y)),
                    "canonical" => canonical::<Y>(&c.ty, ["yes", "no", "force"][sel % 3], e, pr, q!(Y), mode),
                    _ => cycle::<Y>(&c.ty, [Y::Yes, Y::No, Y::Force][sel % 3].clone(), e, pr, q!(Y), mode),
                }
            }
            "Sha1Checksum" => match mode {
                "unknown" => must_reject::<f::Sha1Checksum>(&c.ty, &format!("{} {}", a[2], a[3]), q!(f::Sha1Checksum)),
                "canonical" => canonical::<f::Sha1Checksum>(&c.ty, &format!("{} {} {}", a[2], num, a[3]), e, p!(f::Sha1Checksum), q!(f::Sha1Checksum), mode),
                _ => cycle(&c.ty, f::Sha1Checksum { sha1: a[2].clone(), size: num, filename: a[3].clone() }, e, p!(f::Sha1Checksum), q!(f::Sha1Checksum), mode),
            },
            "Sha256Checksum" => match mode {
                "unknown" => must_reject::<f::Sha256Checksum>(&c.ty, &format!("{} x{} {}", a[2], num, a[3]), q!(f::Sha256Checksum)),
                "canonical" => canonical::<f::Sha256Checksum>(&c.ty, &format!("{} {} {}", a[2], num, a[3]), e, p!(f::Sha256Checksum), q!(f::Sha256Checksum), mode),
                _ => cycle(&c.ty, f::Sha256Checksum { sha256: a[2].clone(), size: num, filename: a[3].clone() }, e, p!(f::Sha256Checksum), q!(f::Sha256Checksum), mode),
            },
            "Sha512Checksum" => match mode {
                "unknown" => must_reject::<f::Sha512Checksum>(&c.ty, &a[2].to_string(), q!(f::Sha512Checksum)),
                "canonical" => canonical::<f::Sha512Checksum>(&c.ty, &format!("{} {} {}", a[2], num, a[3]), e, p!(f::Sha512Checksum), q!(f::Sha512Checksum), mode),
                _ => cycle(&c.ty, f::Sha512Checksum { sha512: a[2].clone(), size: num, filename: a[3].clone() }, e, p!(f::Sha512Checksum), q!(f::Sha512Checksum), mode),
            },
            "Md5Checksum" => match mode {
                "unknown" => must_reject::<f::Md5Checksum>(&c.ty, &format!("{} -1 {}", a[2], a[3]), q!(f::Md5Checksum)),
                "canonical" => canonical::<f::Md5Checksum>(&c.ty, &format!("{} {} {}", a[2], num, a[3]), e, p!(f::Md5Checksum), q!(f::Md5Checksum), mode),
                _ => cycle(&c.ty, f::Md5Checksum { md5sum: a[2].clone(), size: num, filename: a[3].clone() }, e, p!(f::Md5Checksum), q!(f::Md5Checksum), mode),
            },
            "changes::File" => {
                use debian_control::lossless::changes::File;
                let prios = ["required", "important", "standard", "optional", "extra"];
                let text = format!("{} {} {} {} {}", a[2], num, a[3], prios[sel % 5], a[a.len() - 1]);
                match mode {
                    "unknown" => {
                        let w: String = a[2].chars().filter(|ch| !ch.is_whitespace()).collect();
                        let w = if w.is_empty() || prios.contains(&w.as_str()) { format!("{w}x") } else { w };
                        must_reject::<File>(&c.ty, &format!("{} {} {} {} {}", a[3], num, a[3], w, a[a.len() - 1]), q!(File))
                    }
                    _ => canonical::<File>(&c.ty, &text, e, p!(File), q!(File), mode),
                }
            }
            "PackageListEntry" => {
                let prios = [f::Priority::Required, f::Priority::Important, f::Priority::Standard, f::Priority::Optional, f::Priority::Extra];
                let n_extra = (sel / 7) % 5;
                obs.count(&format!("reach.extras_{n_extra}"));
                obs.state(key_of(&["extras", &n_extra.to_string()]));
                if n_extra >= 2 {
                    obs.nontrivial = Some(key_of(&[&c.ty, mode, &a.join(" ")]));
                }
                let mut extras: Vec<(String, String)> = (0..n_extra).map(|i| (format!("{}{}", a[2 + (i % (a.len() - 2))], i), a[2 + ((i + 1) % (a.len() - 2))].clone())).collect();
                if let (Some(o), Some(first)) = (&c.odd, extras.first_mut()) {
                    first.1 = o.clone();
                }
                if (sel / 105) % 2 == 0 {
                    // key names real Package-List fields carry (an implementation may special-case them)
                    let real = ["arch", "profile", "protected", "essential", "Build-Hint", "x-foo", "Arch", "zz"];
                    for (i, e) in extras.iter_mut().enumerate() {
                        e.0 = real[(sel / 3 + i * 3) % real.len()].to_string();
                    }
                    let mut seen = std::collections::BTreeSet::new();
                    extras.retain(|e| seen.insert(e.0.clone()));
                }
                if extras.len() >= 2 && (sel / 35) % 3 == 0 {
                    // two keys that differ only in letter case
                    let k0 = extras[0].0.clone();
                    extras[1].0 = if k0.chars().any(|ch| ch.is_ascii_lowercase()) { k0.to_ascii_uppercase() } else { format!("{}x", k0.to_ascii_lowercase()) };
                    obs.count("reach.extras_keys_differ_only_in_case");
                }
                let pre = format!("{mode}+extras={}", if n_extra >= 2 { ">=2".to_string() } else { n_extra.to_string() });
                match mode {
                    "unknown" => {
                        let w: String = a[2].chars().filter(|ch| !ch.is_whitespace()).collect();
                        let w = if ["required", "important", "standard", "optional", "extra"].contains(&w.as_str()) { format!("{w}x") } else { w };
                        must_reject::<f::PackageListEntry>(&c.ty, &format!("{} deb {} {}", a[3], a[3], w), q!(f::PackageListEntry))
                    }
                    "canonical" => {
                        // canonical text keeps the extras in the order they were written
                        let mut s = format!("{} deb {} {}", a[2], a[3], prios[sel % 5]);
                        for (k, val) in &extras {
                            s.push_str(&format!(" {k}={val}"));
                        }
                        // written order is only recoverable if it is the canonical (sorted) order
                        let mut sorted = extras.clone();
                        sorted.sort();
                        let mut s2 = format!("{} deb {} {}", a[2], a[3], prios[sel % 5]);
                        for (k, val) in &sorted {
                            s2.push_str(&format!(" {k}={val}"));
                        }
                        let _ = s;
                        canonical::<f::PackageListEntry>(&c.ty, &s2, e, p!(f::PackageListEntry), q!(f::PackageListEntry), &pre)
                    }
                    _ => {
                        let mut x = f::PackageListEntry::new(&a[2], "deb", &a[3], prios[sel % 5].clone());
                        for (k, val) in extras {
                            x.extra.insert(k, val);
                        }
                        cycle(&c.ty, x, e, p!(f::PackageListEntry), q!(f::PackageListEntry), &pre)
                    }
                }
            }
            "BuildProfile" => {
                use debian_control::relations::BuildProfile as BP;
                let val = if sel % 2 == 0 { BP::Enabled(a[2].clone()) } else { BP::Disabled(a[2].clone()) };
                match mode {
                    "canonical" => canonical::<BP>(&c.ty, &val.to_string(), e, p!(BP), q!(BP), mode),
                    _ => cycle(&c.ty, val, e, p!(BP), q!(BP), mode),
                }
            }
            "ParsedVcs" => {
                use debian_control::vcs::ParsedVcs as PV;
                let host = ["", "", "[2001:db8::1]", "[::1]:8080", "user@"][(sel / 4) % 5];
                let val = PV { repo_url: if host.is_empty() { format!("https://{}/{}", a[2], a[3]) } else { format!("https://{}{}/{}", host, a[2], a[3]) }, branch: if sel % 2 == 0 { Some(a[3].clone()) } else { None }, subpath: if (sel / 2) % 2 == 0 { Some(a[2].clone()) } else { None } };
                let pre = format!("{mode}+branch={}+subpath={}", val.branch.is_some(), val.subpath.is_some());
                match mode {
                    "canonical" => canonical::<PV>(&c.ty, &val.to_string(), e, p!(PV), q!(PV), &pre),
                    _ => cycle(&c.ty, val, e, p!(PV), q!(PV), &pre),
                }
            }
            "Vcs" => {
                use debian_control::vcs::Vcs;
                let url = format!("https://{}/{}", a[2], a[3]);
                let val = match sel % 7 {
                    0 => Vcs::Git { repo_url: url, branch: Some(a[3].clone()), subpath: Some(a[2].clone()) },
                    1 => Vcs::Git { repo_url: url, branch: None, subpath: None },
                    2 => Vcs::Bzr { repo_url: url, subpath: if sel % 2 == 0 { Some(a[2].clone()) } else { None } },
                    3 => Vcs::Hg { repo_url: url },
                    4 => Vcs::Svn { url },
                    5 => Vcs::Cvs { root: format!(":pserver:{}", a[2]), module: Some(a[3].clone()) },
                    _ => Vcs::Cvs { root: format!(":pserver:{}", a[2]), module: None },
                };
                if mode == "unknown" {
                    return match Vcs::from_field(&a[2], &a[3]) {
                        Err(_) => Ok(()),
                        Ok(x) => {
                            if ["Git", "Bzr", "Hg", "Svn", "Cvs"].contains(&a[2].as_str()) {
                                Ok(())
                            } else {
                                Err(v("unknown-accepted", "Vcs", "unknown-keyword", format!("from_field({:?}, ..) gave {:?}", a[2], x)))
                            }
                        }
                    };
                }
                let (name, text) = val.to_field();
                match Vcs::from_field(name, &text) {
                    Ok(back) if format!("{:?}", back) == format!("{:?}", val) => {
                        let (n2, t2) = back.to_field();
                        if n2 != name || t2 != text {
                            return Err(v("print-stability", "Vcs", mode, format!("{:?} printed ({name}, {text}) then ({n2}, {t2})", val)));
                        }
                        Ok(())
                    }
                    other => Err(v("value-equality", "Vcs", mode, format!("{:?} prints ({name}, {text:?}) which reads back as {:?}", val, other))),
                }
            }
            "Forwarded" => {
                use dep3::Forwarded as F;
                let val = match sel % 3 {
                    0 => F::No,
                    1 => F::NotNeeded,
                    _ => F::Yes(format!("https://{}/{}", a[2], a[3])),
                };
                match mode {
                    "canonical" => canonical::<F>(&c.ty, &val.to_string(), e, p!(F), q!(F), mode),
                    _ => cycle(&c.ty, val, e, p!(F), q!(F), mode),
                }
            }
            "Origin" => {
                use dep3::Origin as O;
                // a commit id that itself starts with "commit:" is written with one more prefix and read with one less
                let id = if (sel / 2) % 4 == 3 { format!("commit:{}", a[2]) } else { a[2].clone() };
                let val = if sel % 2 == 0 { O::Commit(id) } else { O::Other(format!("https://{}", a[2])) };
                match mode {
                    "canonical" => canonical::<O>(&c.ty, &val.to_string(), e, p!(O), q!(O), mode),
                    _ => cycle(&c.ty, val, e, p!(O), q!(O), mode),
                }
            }
            "AppliedUpstream" => {
                use dep3::AppliedUpstream as A;
                let id = if (sel / 2) % 4 == 3 { format!("commit:{}", a[2]) } else { a[2].clone() };
                let val = if sel % 2 == 0 { A::Commit(id) } else { A::Other(format!("{}.{}", num, a[2])) };
                match mode {
                    "canonical" => canonical::<A>(&c.ty, &val.to_string(), e, p!(A), q!(A), mode),
                    _ => cycle(&c.ty, val, e, p!(A), q!(A), mode),
                }
            }
            "PatchHeader.Origin" => {
                use dep3::lossy::PatchHeader as PH;
                use dep3::{Origin as O, OriginCategory as OC};
                let cat = [None, Some(OC::Backport), Some(OC::Vendor), Some(OC::Upstream), Some(OC::Other)][sel % 5];
                let origin = match (sel / 5) % 5 {
                    0 => O::Commit(a[2].clone()),
                    1 => O::Commit(if (sel / 25) % 3 == 0 { format!("commit:{}", a[2]) } else { a[2].clone() }),
                    // an empty commit id is representable and prints as "commit:"
                    2 => O::Commit(String::new()),
                    3 => O::Other(format!("https://{}", a[2])),
                    // a category word glued to a comma is ordinary text (the separator is ", ")
                    _ => O::Other(format!("{},{}", ["vendor", "upstream", "backport", "other"][sel % 4], a[2])),
                };
                let pre = format!("{mode}+category={}", cat.map(|x| x.to_string()).unwrap_or("none".into()));
                let val = PH { origin: Some((cat, origin)), forwarded: None, author: None, reviewed_by: None, bug_debian: None, last_update: None, applied_upstream: None, bug: None, description: None };
                match mode {
                    // the field text as a maintainer writes it, including the bare category ("Origin: vendor")
                    "canonical" => {
                        let bare = (sel / 10) % 3 == 0;
                        let text = match (cat, bare) {
                            (Some(cat), true) => format!("Origin: {cat}\n"),
                            _ => val.to_string(),
                        };
                        let pre = format!("{pre}{}", if bare && cat.is_some() { "+bare" } else { "" });
                        canonical::<PH>(&c.ty, &text, e, p!(PH), q!(PH), &pre)
                    }
                    _ => cycle(&c.ty, val, e, p!(PH), q!(PH), &pre),
                }
            }
            "Repository.Types" => {
                // the set of repository types of a source entry, in its one-line text form
                use apt_sources::Repositories as R;
                let types = ["deb", "deb-src", "deb deb-src"][sel % 3];
                let suite = ["stable", "sid", "bookworm-updates"][(sel / 3) % 3];
                let text = format!("Types: {types}\nURIs: https://deb.debian.org/debian\nSuites: {suite}\nComponents: main\nArchitectures: amd64\n");
                let pre = format!("{mode}+{}", types.replace(' ', "+"));
                canonical::<R>(&c.ty, &text, e, p!(R), q!(R), &pre)
            }
            "License" => {
                use debian_copyright::License as L;
                let val = match sel % 6 {
                    0 => L::Name(a[2].clone()),
                    1 => L::Text(format!("{}\n{}{}", a[2], a[3], ["", "\n", "\n\n"][(sel / 6) % 3])),
                    2 => L::Named(a[2].clone(), format!("{}\n.\n{}{}", a[3], a[2], ["", "\n"][(sel / 6) % 2])),
                    // degenerate but representable values
                    3 => L::Named(a[2].clone(), String::new()),
                    4 => L::Text(String::new()),
                    _ => L::Named(a[2].clone(), a[3].clone()),
                };
                match mode {
                    "canonical" => canonical::<L>(&c.ty, &val.to_string(), e, p!(L), q!(L), mode),
                    _ => cycle(&c.ty, val, e, p!(L), q!(L), mode),
                }
            }
            "Signature" => {
                use apt_sources::signature::Signature as S;
                let lead = ["", "", "\n", "\n\n", " \n"][(sel / 2) % 5];
                let val = if sel % 2 == 0 {
                    // the path is text: doubled slashes, "/./" and a trailing slash are kept as written
                    let shape = ["/usr/share/keyrings/{}.gpg", "/etc/apt//keyrings/{}.asc", "/etc/./apt/{}.gpg", "relative/{}/", "{}"][(sel / 2) % 5];
                    S::KeyPath(shape.replace("{}", &a[2]).into())
                } else {
                    match (sel / 10) % 6 {
                        // degenerate but representable blocks: one line, nothing at all
                        0 => S::KeyBlock(a[2].clone()),
                        1 => S::KeyBlock(String::new()),
                        _ => S::KeyBlock(format!("{lead}-----BEGIN PGP PUBLIC KEY BLOCK-----\n.\n{}\n-----END PGP PUBLIC KEY BLOCK-----", a[2])),
                    }
                };
                let pre = format!("{mode}+{}", if sel % 2 == 0 { "key-path" } else { "key-block" });
                match mode {
                    "canonical" => canonical::<S>(&c.ty, &val.to_string(), e, p!(S), q!(S), &pre),
                    _ => cycle(&c.ty, val, e, p!(S), q!(S), &pre),
                }
            }
            _ => Ok(()),
        }?;
        obs.event(&format!("{}:{}", c.ty, mode));
        Ok(())
    }

    fn hash_sensitive() -> bool {
        true
    }

    fn shrink(c: &Case) -> Vec<Case> {
        let mut out = Vec::new();
        for i in 2..c.args.len() {
            if c.args[i].chars().count() > 1 {
                let mut n = c.clone();
                n.args[i] = c.args[i].chars().take(1).collect();
                out.push(n);
            }
        }
        if c.args.len() > 4 {
            let mut n = c.clone();
            n.args.pop();
            out.push(n);
        }
        out
    }
}
