//! C15 — typed accessors over shared paragraphs: what a setter writes its getter reads through
//! every live view, exactly one field with the documented name holds the value, nothing else moves.
//! Views are fresh aliases (Control::source(), Copyright::header(), apt::Package::new(alias) ...)
//! into one tree; setter sequences, clearing setters and restarts are scheduled by the simulator.
use crate::core::driver::{key_of, Obs, Scenario, Tier, Violation};
use crate::core::io::{gen_read_plan, gen_write_plan, ReadPlan, SimReader, SimSink, WritePlan};
use crate::core::probe;
use crate::core::rng::Rng;
use crate::gen::{relations as grel, text, typed};
use crate::model::segmenter;
use deb822_lossless::{Deb822, Paragraph};
use debian_control::lossless::relations::Relations;
use serde::{Deserialize, Serialize};
use serde_json::{json, Value};
use std::collections::BTreeMap;
use std::str::FromStr;

pub struct C15;
const ID: &str = "C15";

#[derive(Clone, Debug, Serialize, Deserialize, PartialEq)]
#[serde(rename_all = "snake_case")]
pub enum Arg {
    S(String),
    L(Vec<String>),
    B(bool),
    N(usize),
    /// clearing call (setter given None / false)
    Clear,
}

impl Arg {
    fn s(&self) -> &str {
        match self {
            Arg::S(s) => s,
            _ => "",
        }
    }
    fn l(&self) -> Vec<String> {
        match self {
            Arg::L(l) => l.clone(),
            _ => vec![],
        }
    }
    fn b(&self) -> bool {
        matches!(self, Arg::B(true))
    }
    fn n(&self) -> usize {
        match self {
            Arg::N(n) => *n,
            _ => 0,
        }
    }
}

/// value generator classes
#[derive(Clone, Copy, Debug, PartialEq)]
pub enum G {
    Line,
    Word,
    Url,
    Rel,
    /// a relationship field of debian/control: substitution variables allowed
    RelCtl,
    Version,
    Prio,
    MArch,
    Bool,
    Num,
    Words,
    Lines,
    Md5s,
    Sha1s,
    Sha256s,
    Sha512s,
    Date,
    Ymd,
    Desc,
    Vcs,
    LicenseName,
    LicenseNamed,
    LicenseText,
    Forwarded,
    Applied,
    Origin,
    Env,
}

pub enum AnyView {
    CS(debian_control::lossless::control::Source),
    CB(debian_control::lossless::control::Binary),
    AS(debian_control::lossless::apt::Source),
    AP(debian_control::lossless::apt::Package),
    AR(debian_control::lossless::apt::Release),
    BI(debian_control::lossless::buildinfo::Buildinfo),
    CH(debian_copyright::lossless::Header),
    CF(debian_copyright::lossless::FilesParagraph),
    D3(dep3::lossless::PatchHeader),
}

pub struct Row {
    pub view: &'static str,
    pub accessor: &'static str,
    pub field: &'static str,
    pub gen: G,
    pub clears: bool,
    pub set: fn(&mut AnyView, &Arg),
    pub get: fn(&AnyView) -> Option<String>,
    /// rendered getter result expected after set(arg)
    pub expect: fn(&Arg) -> Option<String>,
    /// raw field text expected after set(arg) (None: field absent)
    pub encode: fn(&Arg) -> Option<String>,
    /// reference reading of a raw field text, rendered like the getter
    pub decode: fn(&str) -> Option<String>,
    /// documented fallback field: used when `field` is absent and the alias is present
    pub alias: Option<&'static str>,
    /// when the setter rewrites part of an existing value: new raw value from (old raw value, argument)
    pub merge: Option<fn(Option<&str>, &Arg) -> String>,
}

/// What a relation getter hands out is the caller's: editing it in place must not show in the next reading.
fn spoil(r: Option<Relations>) {
    if let Some(mut r) = r {
        if r.entries().count() > 0 {
            let _ = r.remove_entry(0);
        } else {
            r.push(debian_control::lossless::relations::Entry::from(vec![debian_control::lossless::relations::Relation::simple("spoiled")]));
        }
    }
}

fn jl(v: &[String]) -> String {
    // the count is part of the rendering: [""] and [] must not look alike
    format!("{}:{}", v.len(), v.join("|"))
}

macro_rules! vt {
    (CS) => { debian_control::lossless::control::Source };
    (CB) => { debian_control::lossless::control::Binary };
    (AS) => { debian_control::lossless::apt::Source };
    (AP) => { debian_control::lossless::apt::Package };
    (AR) => { debian_control::lossless::apt::Release };
    (BI) => { debian_control::lossless::buildinfo::Buildinfo };
    (CH) => { debian_copyright::lossless::Header };
    (CF) => { debian_copyright::lossless::FilesParagraph };
    (D3) => { dep3::lossless::PatchHeader };
}

macro_rules! row {
    ($var:ident, $view:literal, $acc:expr, $field:literal, $gen:expr, $clears:expr, $set:expr, $get:expr, $expect:expr, $encode:expr, $decode:expr) => {
        Row {
            view: $view,
            accessor: $acc,
            field: $field,
            gen: $gen,
            clears: $clears,
            set: |v: &mut AnyView, a: &Arg| {
                if let AnyView::$var(v) = v {
                    let f: fn(&mut vt!($var), &Arg) = $set;
                    f(v, a)
                }
            },
            get: |v: &AnyView| {
                if let AnyView::$var(v) = v {
                    let f: fn(&vt!($var)) -> Option<String> = $get;
                    f(v)
                } else {
                    None
                }
            },
            expect: $expect,
            encode: $encode,
            decode: $decode,
            alias: None,
            merge: None,
        }
    };
}

fn some_s(a: &Arg) -> Option<String> {
    Some(a.s().to_string())
}
fn some_or_clear(a: &Arg) -> Option<String> {
    match a {
        Arg::Clear => None,
        _ => Some(a.s().to_string()),
    }
}
fn raw_id(r: &str) -> Option<String> {
    Some(r.to_string())
}
fn comma_list(r: &str) -> Option<String> {
    // an empty field and a trailing comma hold no item
    Some(jl(&r.split(',').map(|s| s.trim().to_string()).filter(|s| !s.is_empty()).collect::<Vec<_>>()))
}
fn ws_list(r: &str) -> Option<String> {
    Some(jl(&r.split_whitespace().map(|s| s.to_string()).collect::<Vec<_>>()))
}
fn line_list(r: &str) -> Option<String> {
    if r.is_empty() {
        return Some(jl(&[]));
    }
    Some(jl(&r.split('\n').map(|s| s.to_string()).collect::<Vec<_>>()))
}
fn sums_list(r: &str) -> Option<String> {
    // checksum triples: one per line, fields separated by whitespace
    Some(jl(&r.lines().map(|l| l.split_whitespace().collect::<Vec<_>>().join(" ")).collect::<Vec<_>>()))
}
fn yes_no(r: &str) -> Option<String> {
    Some((r == "yes").to_string())
}

macro_rules! str_row {
    ($var:ident, $view:literal, $field:literal, $gen:expr, $set:ident, $get:ident) => {
        row!($var, $view, stringify!($set), $field, $gen, false, |v, a| v.$set(a.s()), |v| v.$get().map(|x| x.to_string()), some_s, some_s, raw_id)
    };
}
macro_rules! ostr_row {
    ($var:ident, $view:literal, $field:literal, $gen:expr, $set:ident, $get:ident) => {
        row!(
            $var,
            $view,
            stringify!($set),
            $field,
            $gen,
            true,
            |v, a| match a {
                Arg::Clear => v.$set(None),
                _ => v.$set(Some(a.s())),
            },
            |v| v.$get().map(|x| x.to_string()),
            some_or_clear,
            some_or_clear,
            raw_id
        )
    };
}
macro_rules! rel_ref_row {
    ($var:ident, $view:literal, $field:literal, $set:ident, $get:ident) => {
        row!($var, $view, stringify!($set), $field, G::RelCtl, false, |v, a| v.$set(&Relations::parse_relaxed(a.s(), true).0), |v| { spoil(v.$get()); v.$get().map(|x| x.to_string()) }, some_s, some_s, raw_id)
    };
}
macro_rules! rel_val_row {
    ($var:ident, $view:literal, $field:literal, $set:ident, $get:ident) => {
        row!($var, $view, stringify!($set), $field, G::Rel, false, |v, a| v.$set(Relations::parse_relaxed(a.s(), true).0), |v| { spoil(v.$get()); v.$get().map(|x| x.to_string()) }, some_s, some_s, raw_id)
    };
}
macro_rules! orel_row {
    ($var:ident, $view:literal, $field:literal, $set:ident, $get:ident) => {
        row!(
            $var,
            $view,
            stringify!($set),
            $field,
            G::RelCtl,
            true,
            |v, a| match a {
                Arg::Clear => v.$set(None),
                _ => v.$set(Some(&Relations::parse_relaxed(a.s(), true).0)),
            },
            |v| { spoil(v.$get()); v.$get().map(|x| x.to_string()) },
            some_or_clear,
            some_or_clear,
            raw_id
        )
    };
}
macro_rules! sums_row {
    ($var:ident, $view:literal, $field:literal, $gen:expr, $ty:ty, $set:ident, $get:ident) => {
        row!(
            $var,
            $view,
            stringify!($set),
            $field,
            $gen,
            false,
            |v, a| v.$set(a.l().iter().map(|s| s.parse::<$ty>().unwrap()).collect()),
            |v| Some(jl(&v.$get().iter().map(|x| x.to_string()).collect::<Vec<_>>())),
            |a| Some(jl(&a.l())),
            |a| Some(a.l().join("\n")),
            sums_list
        )
    };
}

pub fn rows() -> Vec<Row> {
    use debian_control::fields::{Md5Checksum, MultiArch, Priority, Sha1Checksum, Sha256Checksum, Sha512Checksum};
    let mut r: Vec<Row> = Vec::new();
    // ---- control::Source
    r.push(str_row!(CS, "control::Source", "Source", G::Word, set_name, name));
    r.push(ostr_row!(CS, "control::Source", "Section", G::Word, set_section, section));
    r.push(row!(
        CS,
        "control::Source",
        "set_priority",
        "Priority",
        G::Prio,
        true,
        |v, a| match a {
            Arg::Clear => v.set_priority(None),
            _ => v.set_priority(Some(a.s().parse::<Priority>().unwrap())),
        },
        |v| v.priority().map(|x| x.to_string()),
        some_or_clear,
        some_or_clear,
        raw_id
    ));
    r.push(str_row!(CS, "control::Source", "Maintainer", G::Line, set_maintainer, maintainer));
    r.push(rel_ref_row!(CS, "control::Source", "Build-Depends", set_build_depends, build_depends));
    r.push(str_row!(CS, "control::Source", "Standards-Version", G::Word, set_standards_version, standards_version));
    r.push(row!(CS, "control::Source", "set_homepage", "Homepage", G::Url, false, |v, a| v.set_homepage(&url::Url::parse(a.s()).unwrap()), |v| v.homepage().map(|x| x.to_string()), some_s, some_s, raw_id));
    r.push(str_row!(CS, "control::Source", "Vcs-Git", G::Vcs, set_vcs_git, vcs_git));
    r.push(str_row!(CS, "control::Source", "Vcs-Svn", G::Url, set_vcs_svn, vcs_svn));
    r.push(str_row!(CS, "control::Source", "Vcs-Bzr", G::Url, set_vcs_bzr, vcs_bzr));
    r.push(str_row!(CS, "control::Source", "Vcs-Arch", G::Url, set_vcs_arch, vcs_arch));
    r.push(str_row!(CS, "control::Source", "Vcs-Svk", G::Url, set_vcs_svk, vcs_svk));
    r.push(str_row!(CS, "control::Source", "Vcs-Darcs", G::Url, set_vcs_darcs, vcs_darcs));
    r.push(str_row!(CS, "control::Source", "Vcs-Mtn", G::Url, set_vcs_mtn, vcs_mtn));
    r.push(str_row!(CS, "control::Source", "Vcs-Cvs", G::Url, set_vcs_cvs, vcs_cvs));
    r.push(str_row!(CS, "control::Source", "Vcs-Hg", G::Url, set_vcs_hg, vcs_hg));
    r.push(ostr_row!(CS, "control::Source", "Vcs-Browser", G::Url, set_vcs_browser, vcs_browser));
    r.push(row!(
        CS,
        "control::Source",
        "set_uploaders",
        "Uploaders",
        G::Words,
        false,
        |v, a| {
            let l = a.l();
            let refs: Vec<&str> = l.iter().map(|s| s.as_str()).collect();
            v.set_uploaders(&refs)
        },
        |v| v.uploaders().map(|x: Vec<String>| jl(&x)),
        |a| Some(jl(&a.l())),
        |a| Some(a.l().join(", ")),
        comma_list
    ));
    r.push(ostr_row!(CS, "control::Source", "Architecture", G::Word, set_architecture, architecture));
    r.push(row!(CS, "control::Source", "set_rules_requires_root", "Rules-Requires-Root", G::Bool, false, |v, a| v.set_rules_requires_root(a.b()), |v| v.rules_requires_root().map(|x| x.to_string()), |a| Some(a.b().to_string()), |a| Some(if a.b() { "yes" } else { "no" }.to_string()), |r| Some((!r.eq_ignore_ascii_case("no")).to_string())));
    r.push(str_row!(CS, "control::Source", "Testsuite", G::Word, set_testsuite, testsuite));
    // ---- control::Binary
    r.push(str_row!(CB, "control::Binary", "Package", G::Word, set_name, name));
    r.push(ostr_row!(CB, "control::Binary", "Section", G::Word, set_section, section));
    r.push(row!(
        CB,
        "control::Binary",
        "set_priority",
        "Priority",
        G::Prio,
        true,
        |v, a| match a {
            Arg::Clear => v.set_priority(None),
            _ => v.set_priority(Some(a.s().parse::<Priority>().unwrap())),
        },
        |v| v.priority().map(|x| x.to_string()),
        some_or_clear,
        some_or_clear,
        raw_id
    ));
    r.push(ostr_row!(CB, "control::Binary", "Architecture", G::Word, set_architecture, architecture));
    r.push(orel_row!(CB, "control::Binary", "Depends", set_depends, depends));
    r.push(orel_row!(CB, "control::Binary", "Recommends", set_recommends, recommends));
    r.push(orel_row!(CB, "control::Binary", "Suggests", set_suggests, suggests));
    r.push(orel_row!(CB, "control::Binary", "Enhances", set_enhances, enhances));
    r.push(orel_row!(CB, "control::Binary", "Pre-Depends", set_pre_depends, pre_depends));
    r.push(orel_row!(CB, "control::Binary", "Breaks", set_breaks, breaks));
    r.push(orel_row!(CB, "control::Binary", "Conflicts", set_conflicts, conflicts));
    r.push(orel_row!(CB, "control::Binary", "Replaces", set_replaces, replaces));
    r.push(orel_row!(CB, "control::Binary", "Provides", set_provides, provides));
    r.push(orel_row!(CB, "control::Binary", "Built-Using", set_built_using, built_using));
    r.push(row!(
        CB,
        "control::Binary",
        "set_multi_arch",
        "Multi-Arch",
        G::MArch,
        true,
        |v, a| match a {
            Arg::Clear => v.set_multi_arch(None),
            _ => v.set_multi_arch(Some(a.s().parse::<MultiArch>().unwrap())),
        },
        |v| v.multi_arch().map(|x| x.to_string()),
        some_or_clear,
        some_or_clear,
        raw_id
    ));
    r.push(row!(
        CB,
        "control::Binary",
        "set_essential",
        "Essential",
        G::Bool,
        true,
        |v, a| v.set_essential(a.b()),
        |v| Some(v.essential().to_string()),
        |a| Some(a.b().to_string()),
        |a| if a.b() { Some("yes".to_string()) } else { None },
        yes_no
    ));
    r.push(ostr_row!(CB, "control::Binary", "Description", G::Desc, set_description, description));
    r.push(row!(CB, "control::Binary", "set_homepage", "Homepage", G::Url, false, |v, a| v.set_homepage(&url::Url::parse(a.s()).unwrap()), |v| v.homepage().map(|x| x.to_string()), some_s, some_s, raw_id));
    // ---- apt::Source
    r.push(str_row!(AS, "apt::Source", "Package", G::Word, set_package, package));
    r.push(row!(AS, "apt::Source", "set_version", "Version", G::Version, false, |v, a| v.set_version(a.s().parse().unwrap()), |v| v.version().map(|x| x.to_string()), some_s, some_s, raw_id));
    r.push(str_row!(AS, "apt::Source", "Maintainer", G::Line, set_maintainer, maintainer));
    r.push(row!(AS, "apt::Source", "set_uploaders", "Uploaders", G::Words, false, |v, a| v.set_uploaders(a.l()), |v| v.uploaders().map(|x: Vec<String>| jl(&x)), |a| Some(jl(&a.l())), |a| Some(a.l().join(", ")), comma_list));
    r.push(str_row!(AS, "apt::Source", "Standards-Version", G::Word, set_standards_version, standards_version));
    r.push(str_row!(AS, "apt::Source", "Format", G::Word, set_format, format));
    r.push(str_row!(AS, "apt::Source", "Vcs-Browser", G::Url, set_vcs_browser, vcs_browser));
    r.push(str_row!(AS, "apt::Source", "Vcs-Git", G::Vcs, set_vcs_git, vcs_git));
    r.push(str_row!(AS, "apt::Source", "Vcs-Svn", G::Url, set_vcs_svn, vcs_svn));
    r.push(str_row!(AS, "apt::Source", "Vcs-Hg", G::Url, set_vcs_hg, vcs_hg));
    r.push(str_row!(AS, "apt::Source", "Vcs-Bzr", G::Url, set_vcs_bzr, vcs_bzr));
    r.push(str_row!(AS, "apt::Source", "Vcs-Arch", G::Url, set_vcs_arch, vcs_arch));
    r.push(str_row!(AS, "apt::Source", "Vcs-Svk", G::Url, set_vcs_svk, vcs_svk));
    r.push(str_row!(AS, "apt::Source", "Vcs-Darcs", G::Url, set_vcs_darcs, vcs_darcs));
    r.push(str_row!(AS, "apt::Source", "Vcs-Mtn", G::Url, set_vcs_mtn, vcs_mtn));
    r.push(str_row!(AS, "apt::Source", "Vcs-Cvs", G::Url, set_vcs_cvs, vcs_cvs));
    r.push(rel_val_row!(AS, "apt::Source", "Build-Depends", set_build_depends, build_depends));
    r.push(rel_val_row!(AS, "apt::Source", "Build-Depends-Indep", set_build_depends_indep, build_depends_indep));
    r.push(rel_val_row!(AS, "apt::Source", "Build-Depends-Arch", set_build_depends_arch, build_depends_arch));
    r.push(rel_val_row!(AS, "apt::Source", "Build-Conflicts", set_build_conflicts, build_conflicts));
    r.push(rel_val_row!(AS, "apt::Source", "Build-Conflicts-Indep", set_build_conflicts_indep, build_conflicts_indep));
    r.push(rel_val_row!(AS, "apt::Source", "Build-Conflicts-Arch", set_build_conflicts_arch, build_conflicts_arch));
    r.push(rel_val_row!(AS, "apt::Source", "Binary", set_binary, binary));
    r.push(str_row!(AS, "apt::Source", "Homepage", G::Url, set_homepage, homepage));
    r.push(str_row!(AS, "apt::Source", "Section", G::Word, set_section, section));
    r.push(row!(AS, "apt::Source", "set_priority", "Priority", G::Prio, false, |v, a| v.set_priority(a.s().parse::<Priority>().unwrap()), |v| v.priority().map(|x| x.to_string()), some_s, some_s, raw_id));
    r.push(str_row!(AS, "apt::Source", "Architecture", G::Word, set_architecture, architecture));
    r.push(str_row!(AS, "apt::Source", "Directory", G::Word, set_directory, directory));
    r.push(str_row!(AS, "apt::Source", "Testsuite", G::Word, set_testsuite, testsuite));
    r.push(sums_row!(AS, "apt::Source", "Files", G::Md5s, Md5Checksum, set_files, files));
    r.push(sums_row!(AS, "apt::Source", "Checksums-Sha1", G::Sha1s, Sha1Checksum, set_checksums_sha1, checksums_sha1));
    r.push(sums_row!(AS, "apt::Source", "Checksums-Sha256", G::Sha256s, Sha256Checksum, set_checksums_sha256, checksums_sha256));
    r.push(sums_row!(AS, "apt::Source", "Checksums-Sha512", G::Sha512s, Sha512Checksum, set_checksums_sha512, checksums_sha512));
    // ---- apt::Package
    r.push(str_row!(AP, "apt::Package", "Package", G::Word, set_name, name));
    r.push(row!(AP, "apt::Package", "set_version", "Version", G::Version, false, |v, a| v.set_version(a.s().parse().unwrap()), |v| v.version().map(|x| x.to_string()), some_s, some_s, raw_id));
    r.push(row!(AP, "apt::Package", "set_installed_size", "Installed-Size", G::Num, false, |v, a| v.set_installed_size(a.n()), |v| v.installed_size().map(|x| x.to_string()), |a| Some(a.n().to_string()), |a| Some(a.n().to_string()), raw_id));
    r.push(str_row!(AP, "apt::Package", "Maintainer", G::Line, set_maintainer, maintainer));
    r.push(str_row!(AP, "apt::Package", "Architecture", G::Word, set_architecture, architecture));
    r.push(rel_val_row!(AP, "apt::Package", "Depends", set_depends, depends));
    r.push(rel_val_row!(AP, "apt::Package", "Recommends", set_recommends, recommends));
    r.push(rel_val_row!(AP, "apt::Package", "Suggests", set_suggests, suggests));
    r.push(rel_val_row!(AP, "apt::Package", "Enhances", set_enhances, enhances));
    r.push(rel_val_row!(AP, "apt::Package", "Pre-Depends", set_pre_depends, pre_depends));
    r.push(rel_val_row!(AP, "apt::Package", "Breaks", set_breaks, breaks));
    r.push(rel_val_row!(AP, "apt::Package", "Conflicts", set_conflicts, conflicts));
    r.push(rel_val_row!(AP, "apt::Package", "Replaces", set_replaces, replaces));
    r.push(rel_val_row!(AP, "apt::Package", "Provides", set_provides, provides));
    r.push(str_row!(AP, "apt::Package", "Section", G::Word, set_section, section));
    r.push(row!(AP, "apt::Package", "set_priority", "Priority", G::Prio, false, |v, a| v.set_priority(a.s().parse::<Priority>().unwrap()), |v| v.priority().map(|x| x.to_string()), some_s, some_s, raw_id));
    r.push(str_row!(AP, "apt::Package", "Description", G::Desc, set_description, description));
    r.push(row!(AP, "apt::Package", "set_homepage", "Homepage", G::Url, false, |v, a| v.set_homepage(&url::Url::parse(a.s()).unwrap()), |v| v.homepage().map(|x| x.to_string()), some_s, some_s, raw_id));
    r.push(str_row!(AP, "apt::Package", "Source", G::Word, set_source, source));
    r.push(str_row!(AP, "apt::Package", "Description-md5", G::Word, set_description_md5, description_md5));
    r.push(row!(AP, "apt::Package", "set_tags", "Tag", G::Words, false, |v, a| v.set_tags("Tag", a.l()), |v| v.tags("Tag").map(|x: Vec<String>| jl(&x)), |a| Some(jl(&a.l())), |a| Some(a.l().join(", ")), comma_list));
    r.push(str_row!(AP, "apt::Package", "Filename", G::Word, set_filename, filename));
    r.push(row!(AP, "apt::Package", "set_size", "Size", G::Num, false, |v, a| v.set_size(a.n()), |v| v.size().map(|x| x.to_string()), |a| Some(a.n().to_string()), |a| Some(a.n().to_string()), raw_id));
    r.push(str_row!(AP, "apt::Package", "MD5sum", G::Word, set_md5sum, md5sum));
    r.push(str_row!(AP, "apt::Package", "SHA256", G::Word, set_sha256, sha256));
    r.push(row!(AP, "apt::Package", "set_multi_arch", "Multi-Arch", G::MArch, false, |v, a| v.set_multi_arch(a.s().parse::<MultiArch>().unwrap()), |v| v.multi_arch().map(|x| x.to_string()), some_s, some_s, raw_id));
    // ---- apt::Release
    r.push(str_row!(AR, "apt::Release", "Origin", G::Line, set_origin, origin));
    r.push(str_row!(AR, "apt::Release", "Label", G::Line, set_label, label));
    r.push(str_row!(AR, "apt::Release", "Suite", G::Word, set_suite, suite));
    r.push(str_row!(AR, "apt::Release", "Codename", G::Word, set_codename, codename));
    r.push(row!(AR, "apt::Release", "set_changelogs", "Changelogs", G::Words, false, |v, a| v.set_changelogs(a.l()), |v| v.changelogs().map(|x: Vec<String>| jl(&x)), |a| Some(jl(&a.l())), |a| Some(a.l().join(", ")), comma_list));
    r.push(row!(
        AR,
        "apt::Release",
        "set_date",
        "Date",
        G::Date,
        false,
        |v, a| v.set_date(chrono::DateTime::parse_from_rfc2822(a.s()).unwrap()),
        |v| v.date().map(|x| x.to_rfc2822()),
        |a| Some(chrono::DateTime::parse_from_rfc2822(a.s()).unwrap().to_rfc2822()),
        |a| Some(chrono::DateTime::parse_from_rfc2822(a.s()).unwrap().to_rfc2822()),
        |r| ref_date(r)
    ));
    r.push(row!(
        AR,
        "apt::Release",
        "set_valid_until",
        "Valid-Until",
        G::Date,
        false,
        |v, a| v.set_valid_until(chrono::DateTime::parse_from_rfc2822(a.s()).unwrap()),
        |v| v.valid_until().map(|x| x.to_rfc2822()),
        |a| Some(chrono::DateTime::parse_from_rfc2822(a.s()).unwrap().to_rfc2822()),
        |a| Some(chrono::DateTime::parse_from_rfc2822(a.s()).unwrap().to_rfc2822()),
        |r| ref_date(r)
    ));
    r.push(row!(AR, "apt::Release", "set_acquire_by_hash", "Acquire-By-Hash", G::Bool, false, |v, a| v.set_acquire_by_hash(a.b()), |v| Some(v.acquire_by_hash().to_string()), |a| Some(a.b().to_string()), |a| Some(if a.b() { "yes" } else { "no" }.to_string()), yes_no));
    r.push(row!(
        AR,
        "apt::Release",
        "set_no_support_for_architecture_all",
        // the name Release files use; its value names the index concerned ("Packages"), anything but "no" counts
        "No-Support-for-Architecture-all",
        G::Bool,
        false,
        |v, a| v.set_no_support_for_architecture_all(a.b()),
        |v| Some(v.no_support_for_architecture_all().to_string()),
        |a| Some(a.b().to_string()),
        |a| Some(if a.b() { "yes" } else { "no" }.to_string()),
        |r| Some((r != "no").to_string())
    ));
    r.push(row!(AR, "apt::Release", "set_architectures", "Architectures", G::Words, false, |v, a| v.set_architectures(a.l()), |v| v.architectures().map(|x: Vec<String>| jl(&x)), |a| Some(jl(&a.l())), |a| Some(a.l().join(" ")), ws_list));
    r.push(row!(AR, "apt::Release", "set_components", "Components", G::Words, false, |v, a| v.set_components(a.l()), |v| v.components().map(|x: Vec<String>| jl(&x)), |a| Some(jl(&a.l())), |a| Some(a.l().join(" ")), ws_list));
    r.push(str_row!(AR, "apt::Release", "Description", G::Line, set_description, description));
    r.push(sums_row!(AR, "apt::Release", "MD5Sum", G::Md5s, Md5Checksum, set_checksums_md5, checksums_md5));
    r.push(sums_row!(AR, "apt::Release", "SHA1", G::Sha1s, Sha1Checksum, set_checksums_sha1, checksums_sha1));
    r.push(sums_row!(AR, "apt::Release", "SHA256", G::Sha256s, Sha256Checksum, set_checksums_sha256, checksums_sha256));
    r.push(sums_row!(AR, "apt::Release", "SHA512", G::Sha512s, Sha512Checksum, set_checksums_sha512, checksums_sha512));
    // ---- buildinfo
    r.push(str_row!(BI, "Buildinfo", "Source", G::Word, set_source, source));
    r.push(row!(BI, "Buildinfo", "set_binaries", "Binary", G::Words, false, |v, a| v.set_binaries(a.l()), |v| v.binaries().map(|x: Vec<String>| jl(&x)), |a| Some(jl(&a.l())), |a| Some(a.l().join(" ")), ws_list));
    r.push(row!(BI, "Buildinfo", "set_version", "Version", G::Version, false, |v, a| v.set_version(a.s().parse().unwrap()), |v| v.version().map(|x| x.to_string()), some_s, some_s, raw_id));
    r.push(str_row!(BI, "Buildinfo", "Build-Architecture", G::Word, set_build_architecture, build_architecture));
    r.push(str_row!(BI, "Buildinfo", "Architecture", G::Word, set_architecture, architecture));
    r.push(sums_row!(BI, "Buildinfo", "Checksums-Sha256", G::Sha256s, Sha256Checksum, set_checksums_sha256, checksums_sha256));
    r.push(sums_row!(BI, "Buildinfo", "Checksums-Sha1", G::Sha1s, Sha1Checksum, set_checksums_sha1, checksums_sha1));
    r.push(sums_row!(BI, "Buildinfo", "Checksums-Md5", G::Md5s, Md5Checksum, set_checksums_md5, checksums_md5));
    r.push(str_row!(BI, "Buildinfo", "Build-Origin", G::Word, set_build_origin, build_origin));
    r.push(str_row!(BI, "Buildinfo", "Build-Date", G::Date, set_build_date, build_date));
    r.push(row!(BI, "Buildinfo", "set_build_tainted_by", "Build-Tainted-By", G::Words, false, |v, a| v.set_build_tainted_by(a.l()), |v| v.build_tainted_by().map(|x: Vec<String>| jl(&x)), |a| Some(jl(&a.l())), |a| Some(a.l().join(" ")), ws_list));
    r.push(str_row!(BI, "Buildinfo", "Format", G::Word, set_format, format));
    r.push(str_row!(BI, "Buildinfo", "Build-Path", G::Word, set_build_path, build_path));
    r.push(rel_val_row!(BI, "Buildinfo", "Installed-Build-Depends", set_installed_build_depends, installed_build_depends));
    r.push(row!(
        BI,
        "Buildinfo",
        "set_environment",
        "Environment",
        G::Env,
        false,
        |v, a| v.set_environment(a.l().iter().map(|kv| kv.split_once('=').map(|(k, v)| (k.to_string(), v.to_string())).unwrap()).collect()),
        |v| v.environment().map(|m| {
            let mut l: Vec<String> = m.into_iter().map(|(k, v)| format!("{k}={v}")).collect();
            l.sort();
            jl(&l)
        }),
        |a| {
            let mut l = a.l();
            l.sort();
            Some(jl(&l))
        },
        |a| {
            // any order of the variables is a faithful encoding (the accessor's type is a map)
            let mut l = a.l();
            l.sort();
            Some(l.join("\n"))
        },
        |r| {
            let mut l: Vec<String> = r.lines().map(|x| x.to_string()).collect();
            l.sort();
            Some(jl(&l))
        }
    ));
    // ---- copyright header / files
    r.push(str_row!(CH, "copyright::Header", "Upstream-Name", G::Line, set_upstream_name, upstream_name));
    r.push(str_row!(CH, "copyright::Header", "Upstream-Contact", G::Line, set_upstream_contact, upstream_contact));
    r.push(str_row!(CH, "copyright::Header", "Source", G::Url, set_source, source));
    // Header::fix: normalises the format string (trailing slash, https), nothing else moves
    r.push(row!(CH, "copyright::Header", "fix", "Format", G::Word, false, |v, _a| v.fix(), |v| v.format_string(), |_a| None, |_a| Some(String::new()), raw_id));
    r.push(row!(
        CH,
        "copyright::Header",
        "set_files_excluded",
        "Files-Excluded",
        // a whitespace-separated list of patterns, like Files; the setter puts one per line
        G::Words,
        false,
        |v, a| {
            let l = a.l();
            let refs: Vec<&str> = l.iter().map(|s| s.as_str()).collect();
            v.set_files_excluded(&refs)
        },
        |v| v.files_excluded().map(|x: Vec<String>| jl(&x)),
        |a| Some(jl(&a.l())),
        |a| Some(a.l().join("\n")),
        ws_list
    ));
    r.push(row!(
        CF,
        "copyright::FilesParagraph",
        "set_copyright",
        "Copyright",
        G::Lines,
        false,
        |v, a| {
            let l = a.l();
            let refs: Vec<&str> = l.iter().map(|s| s.as_str()).collect();
            v.set_copyright(&refs)
        },
        |v| Some(jl(&v.copyright())),
        |a| Some(jl(&a.l())),
        |a| Some(a.l().join("\n")),
        line_list
    ));
    r.push(str_row!(CF, "copyright::FilesParagraph", "Comment", G::Line, set_comment, comment));
    r.push(row!(
        CF,
        "copyright::FilesParagraph",
        "set_license",
        "License",
        G::LicenseName,
        false,
        |v, a| v.set_license(&debian_copyright::License::Name(a.s().to_string())),
        |v| v.license().map(|l| format!("{:?}", l)),
        |a| Some(format!("{:?}", debian_copyright::License::Name(a.s().to_string()))),
        some_s,
        |r| Some(format!("{:?}", debian_copyright::License::from_str(r).unwrap()))
    ));
    r.push(row!(
        CF,
        "copyright::FilesParagraph",
        "set_license(named)",
        "License",
        G::LicenseNamed,
        false,
        |v, a| {
            let l = a.l();
            v.set_license(&debian_copyright::License::Named(l[0].clone(), l[1..].join("\n")))
        },
        |v| v.license().map(|l| format!("{:?}", l)),
        |a| {
            let l = a.l();
            Some(format!("{:?}", debian_copyright::License::Named(l[0].clone(), l[1..].join("\n"))))
        },
        |a| Some(a.l().join("\n")),
        |r| Some(format!("{:?}", debian_copyright::License::from_str(r).unwrap()))
    ));
    r.push(row!(
        CF,
        "copyright::FilesParagraph",
        "set_license(text)",
        "License",
        G::LicenseText,
        false,
        |v, a| v.set_license(&debian_copyright::License::Text(a.l().join("\n"))),
        |v| v.license().map(|l| format!("{:?}", l)),
        |a| Some(format!("{:?}", debian_copyright::License::Text(a.l().join("\n")))),
        // a licence without short name: nothing on the field line, the text on the following lines
        |a| Some(a.l().join("\n")),
        |r| Some(format!("{:?}", debian_copyright::License::from_str(r).unwrap()))
    ));
    // ---- DEP-3
    r.push(row!(
        D3,
        "dep3::PatchHeader",
        "set_origin",
        "Origin",
        G::Origin,
        false,
        |v, a| {
            let (c, o) = parse_origin_ref(a.s());
            v.set_origin(c, o)
        },
        |v| v.origin().map(|x| format!("{:?}", x)),
        |a| Some(format!("{:?}", parse_origin_ref(a.s()))),
        some_s,
        |r| Some(format!("{:?}", parse_origin_ref(r)))
    ));
    r.push(row!(D3, "dep3::PatchHeader", "set_forwarded", "Forwarded", G::Forwarded, false, |v, a| v.set_forwarded(a.s().parse().unwrap()), |v| v.forwarded().map(|x| x.to_string()), some_s, some_s, raw_id));
    r.push(str_row!(D3, "dep3::PatchHeader", "Author", G::Line, set_author, author));
    r.push(row!(
        D3,
        "dep3::PatchHeader",
        "set_last_update",
        "Last-Update",
        G::Ymd,
        false,
        |v, a| v.set_last_update(chrono::NaiveDate::parse_from_str(a.s(), "%Y-%m-%d").unwrap()),
        |v| v.last_update().map(|x| x.format("%Y-%m-%d").to_string()),
        some_s,
        some_s,
        raw_id
    ));
    r.push(row!(D3, "dep3::PatchHeader", "set_applied_upstream", "Applied-Upstream", G::Applied, false, |v, a| v.set_applied_upstream(a.s().parse().unwrap()), |v| v.applied_upstream().map(|x| x.to_string()), some_s, some_s, raw_id));
    r.push(row!(
        D3,
        "dep3::PatchHeader",
        "set_description",
        "Description",
        G::Line,
        false,
        |v, a| v.set_description(a.s()),
        |v| v.description(),
        some_s,
        // the first line of the field; the long description (if any) stays: checked by the list model through `first_line_only`
        some_s,
        |r| Some(r.split('\n').next().unwrap_or("").to_string())
    ));
    r.push(row!(
        D3,
        "dep3::PatchHeader",
        "set_long_description",
        "Description",
        G::Lines,
        false,
        |v, a| v.set_long_description(&a.l().join("\n")),
        |v| v.long_description(),
        |a| Some(a.l().join("\n")),
        |a| Some(a.l().join("\n")),
        |r| Some(r.split_once('\n').map(|x| x.1).unwrap_or("").to_string())
    ));
    for row in r.iter_mut() {
        match (row.view, row.accessor) {
            ("copyright::Header", "fix") => {
                row.merge = Some(|old, _a| {
                    let mut f = old.unwrap_or("").to_string();
                    if !f.ends_with('/') {
                        f.push('/');
                    }
                    if let Some(rest) = f.strip_prefix("http:") {
                        f = format!("https:{rest}");
                    }
                    f
                });
            }
            ("dep3::PatchHeader", "set_author") => row.alias = Some("From"),
            ("dep3::PatchHeader", "set_description") => {
                row.alias = Some("Subject");
                // replaces the first line, keeps the long description
                row.merge = Some(|old, a| match old.and_then(|o| o.split_once('\n')) {
                    Some((_, rest)) => format!("{}\n{}", a.s(), rest),
                    None => a.s().to_string(),
                });
            }
            ("dep3::PatchHeader", "set_long_description") => {
                row.alias = Some("Subject");
                // keeps the first line, replaces the rest
                row.merge = Some(|old, a| match old {
                    Some(o) => format!("{}\n{}", o.split('\n').next().unwrap_or(""), a.l().join("\n")),
                    None => a.l().join("\n"),
                });
            }
            _ => {}
        }
    }
    r
}

/// Reference matcher for copyright Files patterns: `*` any run of characters (slashes included), `?` one
/// character, backslash takes the next character literally.
fn ref_glob(pat: &str, name: &str) -> bool {
    fn m(p: &[char], n: &[char]) -> bool {
        match p.first() {
            None => n.is_empty(),
            Some('*') => (0..=n.len()).any(|i| m(&p[1..], &n[i..])),
            Some('?') => !n.is_empty() && m(&p[1..], &n[1..]),
            Some('\\') if p.len() >= 2 => !n.is_empty() && n[0] == p[1] && m(&p[2..], &n[1..]),
            Some(c) => !n.is_empty() && n[0] == *c && m(&p[1..], &n[1..]),
        }
    }
    let p: Vec<char> = pat.chars().collect();
    let n: Vec<char> = name.chars().collect();
    m(&p, &n)
}

/// Reference reading of a Release date: RFC 2822 style, the zone may be spelled "UTC".
fn ref_date(r: &str) -> Option<String> {
    let t = r.trim();
    let t = match t.strip_suffix(" UTC") {
        Some(p) => format!("{p} +0000"),
        None => t.to_string(),
    };
    chrono::DateTime::parse_from_rfc2822(&t).ok().map(|x| x.to_rfc2822())
}

/// Reference reading of a DEP-3 Origin value: optional "<category>, " prefix, "commit:<id>" or free text.
fn parse_origin_ref(s: &str) -> (Option<dep3::OriginCategory>, dep3::Origin) {
    use dep3::{Origin, OriginCategory as OC};
    let (cat, rest) = match s.split_once(", ") {
        Some(("backport", r)) => (Some(OC::Backport), r),
        Some(("vendor", r)) => (Some(OC::Vendor), r),
        Some(("upstream", r)) => (Some(OC::Upstream), r),
        Some(("other", r)) => (Some(OC::Other), r),
        _ => (None, s),
    };
    match rest.strip_prefix("commit:") {
        Some(c) => (cat, Origin::Commit(c.to_string())),
        None => (cat, Origin::Other(rest.to_string())),
    }
}

// ------------------------------------------------------------------------------------------------

#[derive(Clone, Debug, Serialize, Deserialize)]
#[serde(tag = "op", rename_all = "snake_case")]
pub enum Ev {
    /// obtain a fresh view of paragraph `para`
    View { para: usize, out: usize },
    Set { view: usize, row: String, arg: Arg },
    Get { view: usize, row: String },
    Restart { plan: ReadPlan },
    /// control only: Control::add_binary(name); the returned view is kept under `out`
    AddBinary { name: String, out: usize },
    /// control only (when the file has no source paragraph yet): Control::add_source(name)
    AddSource { name: String, out: usize },
    /// DEP-3 only: persist the header through PatchHeader::write into a faulting sink, reload from the durable image
    Persist { plan: WritePlan },
    /// control only: a fresh view of paragraph `para` is normalised with its own wrap_and_sort (which replaces the
    /// paragraph behind the view by a rebuilt copy), then the setter of `row` is called through it and its getter read
    /// back; the document itself must not move
    WrapThenSet { para: usize, row: String, arg: Arg },
}

#[derive(Clone, Debug, Serialize, Deserialize)]
pub struct Case {
    /// control | apt-source | apt-package | apt-release | buildinfo | copyright | dep3
    pub kind: String,
    pub text: String,
    pub events: Vec<Ev>,
}

enum Doc {
    Plain(Deb822),
    /// control files are reached through Control::source() / binaries() / add_binary()
    Ctl(debian_control::lossless::Control),
    Cr(debian_copyright::lossless::Copyright),
    D3,
}

struct Live {
    doc: Doc,
    /// for dep3 the single view is the document
    views: BTreeMap<usize, (usize, AnyView)>,
    model: Vec<Vec<(String, String)>>,
}

fn v(clause: &str, op: &str, pre: &str, detail: String) -> Violation {
    Violation::new(ID, clause, op, pre, detail)
}

fn view_kind_for(kind: &str, para: &[(String, String)], index: usize) -> Option<&'static str> {
    match kind {
        "control" => {
            if para.iter().any(|e| e.0 == "Package") {
                Some("control::Binary")
            } else if para.iter().any(|e| e.0 == "Source") {
                Some("control::Source")
            } else {
                None
            }
        }
        "apt-source" => Some("apt::Source"),
        "apt-package" => Some("apt::Package"),
        "apt-release" => Some("apt::Release"),
        "buildinfo" => Some("Buildinfo"),
        "copyright" => {
            if index == 0 {
                Some("copyright::Header")
            } else if para.iter().any(|e| e.0 == "Files") {
                Some("copyright::FilesParagraph")
            } else {
                None
            }
        }
        "dep3" => Some("dep3::PatchHeader"),
        _ => None,
    }
}

fn make_view(l: &Live, kind: &str, para: usize) -> Option<AnyView> {
    let vk = view_kind_for(kind, l.model.get(para)?, para)?;
    match &l.doc {
        Doc::Plain(d) => {
            let p: Paragraph = d.paragraphs().nth(para)?;
            Some(match vk {
                "control::Source" => AnyView::CS(p.into()),
                "control::Binary" => AnyView::CB(p.into()),
                "apt::Source" => AnyView::AS(p.into()),
                "apt::Package" => AnyView::AP(debian_control::lossless::apt::Package::new(p)),
                "apt::Release" => AnyView::AR(debian_control::lossless::apt::Release::new(p)),
                "Buildinfo" => AnyView::BI(p.into()),
                _ => return None,
            })
        }
        Doc::Ctl(c) => match vk {
            // found by their Source and Package fields, wherever they are in the file
            "control::Source" => c.source().map(AnyView::CS),
            "control::Binary" => {
                let k = l.model[..para].iter().filter(|p| p.iter().any(|e| e.0 == "Package")).count();
                c.binaries().nth(k).map(AnyView::CB)
            }
            _ => None,
        },
        Doc::Cr(c) => match vk {
            "copyright::Header" => c.header().map(AnyView::CH),
            "copyright::FilesParagraph" => {
                // the k-th Files paragraph
                let k = l.model[..para].iter().filter(|p| p.iter().any(|e| e.0 == "Files")).count();
                c.iter_files().nth(k).map(AnyView::CF)
            }
            _ => None,
        },
        Doc::D3 => None,
    }
}

fn doc_text(l: &Live) -> String {
    match &l.doc {
        Doc::Plain(d) => d.to_string(),
        Doc::Ctl(c) => c.to_string(),
        Doc::Cr(c) => c.to_string(),
        Doc::D3 => match l.views.get(&0) {
            Some((_, AnyView::D3(h))) => h.to_string(),
            _ => String::new(),
        },
    }
}

fn open(kind: &str, text: &str) -> Option<Live> {
    let seg = segmenter::segment(text)?;
    let model = segmenter::paragraphs(&seg);
    let d = Deb822::from_str(text).ok()?;
    let got: Vec<Vec<(String, String)>> = d.paragraphs().map(|p| p.items().collect()).collect();
    if got != model {
        return None; // C03 territory
    }
    let mut l = Live { doc: Doc::D3, views: BTreeMap::new(), model };
    match kind {
        "copyright" => l.doc = Doc::Cr(debian_copyright::lossless::Copyright::from_str(text).ok()?),
        "control" => l.doc = Doc::Ctl(debian_control::lossless::Control::from_str(text).ok()?),
        "dep3" => {
            if l.model.len() != 1 {
                return None;
            }
            let h = dep3::lossless::PatchHeader::from_str(text).ok()?;
            l.views.insert(0, (0, AnyView::D3(h)));
        }
        _ => l.doc = Doc::Plain(d),
    }
    Some(l)
}

/// Any order of the variables is a faithful encoding of the Environment map.
fn norm_env(mut m: Vec<Vec<(String, String)>>) -> Vec<Vec<(String, String)>> {
    for p in m.iter_mut() {
        for e in p.iter_mut() {
            if e.0 == "Environment" {
                let mut ls: Vec<&str> = e.1.lines().collect();
                ls.sort();
                e.1 = ls.join("\n");
            }
        }
    }
    m
}

/// Changes files: getters applied to parsed text (the view has one setter and no access to its paragraph).
fn check_changes(c: &Case, obs: &mut Obs) -> Result<(), Violation> {
    use debian_control::lossless::changes::Changes;
    let seg = match segmenter::segment(&c.text) {
        Some(s) => s,
        None => return Ok(()),
    };
    let paras = segmenter::paragraphs(&seg);
    if paras.len() != 1 {
        return Ok(());
    }
    let raw = |name: &str| paras[0].iter().find(|e| e.0 == name).map(|e| e.1.clone());
    let plan = ReadPlan { steps: vec![crate::core::io::ReadStep::Chunk(3), crate::core::io::ReadStep::Eintr, crate::core::io::ReadStep::Chunk(5)], cut: None };
    probe::at("Changes::read");
    obs.prestate = "raw-text".into();
    let mut r = SimReader::new(c.text.as_bytes(), &plan);
    let mut ch = match Changes::read(&mut r) {
        Ok(c) => c,
        Err(_) => {
            obs.count("reach.init_skipped");
            return Ok(());
        }
    };
    obs.io(&r.fired);
    let ws = |s: String| s.split_whitespace().map(|x| x.to_string()).collect::<Vec<_>>();
    macro_rules! same {
        ($label:expr, $got:expr, $want:expr) => {{
            probe::at(concat!("Changes.", $label));
            obs.step();
            obs.count("op.getter_on_raw_text");
            let g = $got;
            let w = $want;
            if g != w {
                return Err(v("getter-on-raw-text", concat!("Changes.", $label), "raw-text", format!("getter returns {:?}, documented reading of the raw field {:?} (text {:?})", g, w, c.text)));
            }
        }};
    }
    same!("format", ch.format(), raw("Format"));
    same!("source", ch.source(), raw("Source"));
    same!("binary", ch.binary(), raw("Binary").map(ws));
    same!("architecture", ch.architecture(), raw("Architecture").map(ws));
    same!("version", ch.version().map(|x| x.to_string()), raw("Version"));
    same!("distribution", ch.distribution(), raw("Distribution"));
    same!("urgency", ch.urgency().map(|u| u.to_string()), raw("Urgency").map(|u| u.to_lowercase()));
    same!("maintainer", ch.maintainer(), raw("Maintainer"));
    same!("changed_by", ch.changed_by(), raw("Changed-By"));
    same!("description", ch.description(), raw("Description"));
    let triples = |s: String| s.lines().map(|l| l.split_whitespace().collect::<Vec<_>>().join(" ")).collect::<Vec<_>>();
    same!("checksums_sha1", ch.checksums_sha1().map(|x| x.iter().map(|y| y.to_string()).collect::<Vec<_>>()), raw("Checksums-Sha1").map(triples));
    same!("checksums_sha256", ch.checksums_sha256().map(|x| x.iter().map(|y| y.to_string()).collect::<Vec<_>>()), raw("Checksums-Sha256").map(triples));
    same!("files", ch.files().map(|x| x.iter().map(|y| y.to_string()).collect::<Vec<_>>()), raw("Files").map(triples));
    // derived getter: pool/<component>/<prefix>/<source>, component from the first file's section, prefix = first
    // letter of the source name, or "lib" plus the next letter for library packages (the archive's pool layout)
    if let (Some(files), Some(src)) = (raw("Files"), raw("Source")) {
        if let Some(section) = files.lines().next().and_then(|l| l.split_whitespace().nth(2)) {
            if src.is_ascii() && !src.is_empty() {
                let component = section.split_once('/').map(|x| x.0).unwrap_or("main");
                let prefix = if src.starts_with("lib") && src.len() > 3 { src[..4].to_string() } else { src[..1].to_lowercase() };
                same!("get_pool_path", ch.get_pool_path(), Some(format!("pool/{component}/{prefix}/{src}")));
            }
        }
    } else {
        same!("get_pool_path", ch.get_pool_path(), None::<String>);
    }
    // the one setter
    for ev in &c.events {
        if let Ev::Set { arg, .. } = ev {
            probe::at("Changes.set_format");
            obs.count("op.setter");
            ch.set_format(arg.s());
            if ch.format().as_deref() != Some(arg.s()) {
                return Err(v("getter-after-setter", "Changes.set_format", "field-present", format!("set_format({:?}) then format() = {:?}", arg.s(), ch.format())));
            }
            same!("source(after set_format)", ch.source(), raw("Source"));
        }
    }
    obs.state(key_of(&["changes", &paras[0].len().to_string()]));
    Ok(())
}

fn gen_arg(rng: &mut Rng, g: G, seq: usize) -> Arg {
    let w = |rng: &mut Rng| -> String {
        let mut s = format!("w{seq}");
        let upper = rng.chance(1, 4);
        for _ in 0..rng.below(5) {
            let ch = (b'a' + rng.below(26) as u8) as char;
            s.push(if upper && rng.chance(1, 2) { ch.to_ascii_uppercase() } else { ch });
        }
        s
    };
    match g {
        G::Line => {
            let na = rng.chance(1, 2);
            Arg::S(format!("v{seq}{}", text::value_line(rng, na, false).trim_end()))
        }
        G::Word => Arg::S(w(rng)),
        // paths with and without a trailing slash, a query, a fragment: the setter must store the URL it was given
        G::Url => Arg::S(format!("https://example.com/{}{}", w(rng), rng.s(&["", "", "/", "/sub/", "?a=b&c=d", "#frag", "/x.git/"]))),
        G::Vcs => Arg::S(format!("https://example.com/{}.git{}", w(rng), rng.s(&["", " -b main", " [sub]", " -b debian/sid [x]"]))),
        G::Rel | G::RelCtl => {
            // substitution variables are part of a control file's relationship syntax
            let f = grel::RelFlags { epochs: false, substvars: g == G::RelCtl && rng.chance(1, 3), ..grel::RelFlags::canonical() };
            loop {
                let s = grel::field(rng, &f);
                if !s.is_empty() {
                    return Arg::S(s);
                }
            }
        }
        G::Version => Arg::S(format!("{}.{}", rng.s(&["1.0-1", "2:3.4~rc1-2", "0.9", "1:2.0-1+b1"]), seq)),
        G::Prio => Arg::S(rng.s(&["required", "important", "standard", "optional", "extra"]).to_string()),
        G::MArch => Arg::S(rng.s(&["same", "foreign", "no", "allowed"]).to_string()),
        G::Bool => Arg::B(rng.chance(1, 2)),
        G::Num => Arg::N(rng.below(100000) + seq),
        G::Words => {
            // now and then a list long enough to pass any line-folding threshold
            let n = if rng.chance(1, 8) { 10 + rng.below(15) } else if rng.chance(1, 12) { 0 } else { 1 + rng.below(3) };
            Arg::L((0..n).map(|_| w(rng)).collect())
        }
        // now and then no line at all
        G::Lines => Arg::L((0..if rng.chance(1, 12) { 0 } else { 1 + rng.below(3) }).map(|i| format!("l{seq}{i} {}", w(rng))).collect()),
        G::Md5s | G::Sha1s | G::Sha256s | G::Sha512s => {
            let n = match g {
                G::Md5s => 32,
                G::Sha1s => 40,
                G::Sha256s => 64,
                _ => 128,
            };
            Arg::L((0..1 + rng.below(2)).map(|_| format!("{} {} {}", (0..n).map(|_| *rng.pick(&['0', '1', '9', 'a', 'f', 'c'])).collect::<String>(), rng.below(99999), w(rng))).collect())
        }
        G::Date => Arg::S(rng.s(&["Sat, 14 Dec 2024 10:15:30 +0000", "Mon, 1 Jan 2024 00:00:00 +0100", "Tue, 29 Feb 2028 23:59:59 -0500"]).to_string()),
        G::Ymd => Arg::S(rng.s(&["2024-12-14", "2000-02-29", "1999-01-01"]).to_string()),
        G::Desc => {
            let mut s = format!("d{seq} short");
            for _ in 0..rng.below(3) {
                s.push('\n');
                s.push_str(rng.s(&[".", "more text", "x y z"]));
            }
            Arg::S(s)
        }
        G::LicenseName => Arg::S(rng.s(&["GPL-2+", "MIT", "Apache-2.0", "GPL-2+ or MIT"]).to_string()),
        G::LicenseText => Arg::L(vec![format!("text{seq}"), ".".to_string(), "more".to_string()]),
        G::LicenseNamed => Arg::L(vec![rng.s(&["GPL-2+", "MIT"]).to_string(), format!("text{seq}"), ".".to_string(), "more".to_string()]),
        G::Forwarded => Arg::S(rng.s(&["no", "not-needed", "https://example.com/bug/1", "https://Example.com/Bugs/View?ID=42", "Sent-By-Mail-2024"]).to_string()),
        G::Applied => Arg::S(format!("{}{seq}", rng.s(&["commit:deadbeef", "1.2.", "https://x/y"]))),
        G::Origin => Arg::S(format!("{}{}{seq}", rng.s(&["", "backport, ", "vendor, ", "upstream, ", "other, "]), rng.s(&["commit:abc", "https://example.com/p", "https://example.com/r/1234, adapted to 2.x, see list"]))),
        G::Env => Arg::L((0..1 + rng.below(3)).map(|i| format!("K{seq}{i}=\"{}\"", w(rng))).collect()),
    }
}

fn prior_state(para: &[(String, String)], field: &str, text: &str) -> String {
    let n = para.iter().filter(|e| e.0 == field).count();
    let mut s = if n == 0 { "field-absent".to_string() } else if n == 1 { "field-present".to_string() } else { "field-duplicated".to_string() };
    if text.contains("\n#") || text.starts_with('#') {
        s.push_str("+comments");
    }
    s
}

impl Scenario for C15 {
    type Case = Case;
    const ID: &'static str = ID;
    const LEVEL: &'static str = "exploration";
    fn runs(tier: Tier) -> u64 {
        match tier {
            Tier::Quick => 150_000,
            Tier::Thorough => 3_000_000,
        }
    }
    fn rule() -> &'static str {
        Box::leak(format!("one case = a generated typed document (control, apt Sources/Packages/Release stanza, buildinfo, copyright, DEP-3 header; fields present/absent, comments, other fields around) plus a seeded schedule of 1-8 steps: obtain a fresh view of a paragraph (several views of one paragraph coexist), call a setter / clearing setter from the accessor table ({} getter/setter rows; plus Source::vcs(), Header::fix, wrap_and_sort-then-set, Control/Copyright lookups, Changes and DEP-3 getter-only checks) through one view, read the getter through every live view of that paragraph, restart (print, drop views, re-read through a chunked reader); oracle: getter == value through every view, the C04 list model says exactly one field with the documented name holds the reference encoding (replaced in place or appended; removed when cleared), C04's locality diff, strict re-read; at the start every getter is compared with the reference reading of the raw field; non-trivial = at least two setter calls on one paragraph or a setter seen through a second view or across a restart; distinct = FNV hash of the trace", rows().len()).into_boxed_str())
    }
    fn state_measure() -> &'static str {
        "distinct (accessor row, prior state of the field [absent/present/duplicated, comments], number of live views of the paragraph) tuples"
    }
    fn assumptions() -> Vec<&'static str> {
        vec![
            "the accessor table and its reference codecs are written from the Debian field definitions (field name, separator, yes/no spelling), not from the implementation",
            "values are restricted to what the field can carry (single-line strings for single-line fields, list items without separators, valid versions and URLs); getters are not fed garbage",
            "Changes has one setter and no way to reach its paragraph; it is covered by C01's reader checks only",
        ]
    }
    fn components() -> Value {
        json!({"real": ["debian_control::lossless::{control::{Control, Source, Binary}, apt::{Source, Package, Release}, buildinfo::Buildinfo}", "debian_copyright::lossless::{Copyright, Header, FilesParagraph}", "dep3::lossless::PatchHeader", "deb822_lossless editing API underneath"],
               "stub": ["the schedule of view creation / setter / getter calls", "the disk for restarts (SimReader)", "getrandom"]})
    }

    fn generate(rng: &mut Rng, _tier: Tier, k: u64) -> Case {
        let kinds = ["control", "apt-source", "apt-package", "apt-release", "buildinfo", "copyright", "dep3", "changes"];
        let kind = kinds[(k as usize) % kinds.len()];
        let mut text = typed::instance(rng, kind);
        if kind == "control" && rng.chance(1, 3) {
            // the source paragraph need not lead the file
            let mut paras: Vec<String> = text.trim_end_matches('\n').split("\n\n").map(|p| format!("{}\n", p.trim_end_matches('\n'))).collect();
            if paras.len() > 1 {
                let k = 1 + rng.below(paras.len() - 1);
                paras.rotate_left(k);
                text = paras.join("\n");
            }
        }
        if kind == "control" && rng.chance(1, 3) {
            // Policy 5.6.31: besides "no", the field holds "binary-targets" or "<namespace>/<case>" keywords
            let kw = rng.s(&["binary-targets", "dpkg/target-subcommand", "dpkg/target-subcommand other/keyword"]);
            text = text.replace("Rules-Requires-Root: yes\n", &format!("Rules-Requires-Root: {kw}\n"));
        }
        if kind == "dep3" && rng.chance(1, 4) {
            // other fields whose names merely start with "Bug" are not bug references
            text.push_str(rng.s(&["Bugs-Fixed: 3\n", "Bugzilla-Status: open\n", "Bugfix-Release: 1.2\n"]));
        }
        if kind == "buildinfo" && rng.chance(1, 5) {
            // any blank separates the names of a word list
            for f in ["Binary: ", "Build-Tainted-By: "] {
                if let Some(i) = text.find(f) {
                    let end = text[i..].find('\n').map(|e| i + e).unwrap_or(text.len());
                    let line = text[i + f.len()..end].replace(' ', "\t");
                    text.replace_range(i + f.len()..end, &line);
                }
            }
        }
        // layout at the end of the file: a trailing comment line, no final newline
        if kind != "dep3" && !text.is_empty() {
            if rng.chance(1, 8) {
                text.push_str(rng.s(&["# trailing note\n", "#\n", "# a\n# b\n"]));
            }
            if rng.chance(1, 6) && text.ends_with('\n') {
                text.pop();
            }
        }
        let from_scratch = kind == "control" && rng.chance(1, 10);
        if from_scratch {
            text = String::new();
        }
        let mut model = segmenter::segment(&text).map(|s| segmenter::paragraphs(&s)).unwrap_or_default();
        if kind == "changes" {
            let n = rng.below(3);
            let events = (0..n).map(|i| Ev::Set { view: 0, row: "Changes.set_format".into(), arg: Arg::S(format!("1.{i}")) }).collect();
            return Case { kind: kind.to_string(), text, events };
        }
        let table = rows();
        let nsteps = 1 + rng.below(8);
        let mut events = Vec::new();
        let mut views: Vec<(usize, usize, &'static str)> = Vec::new(); // (id, para, view kind)
        let mut next = 1usize;
        if kind == "dep3" {
            views.push((0, 0, "dep3::PatchHeader"));
        }
        let mut seq = 0usize;
        if from_scratch {
            // a control file built through the API; the binary may come first
            let bin_first = rng.chance(1, 2);
            if bin_first {
                model.push(vec![("Package".to_string(), "firstbin".to_string())]);
                events.push(Ev::AddBinary { name: "firstbin".into(), out: next });
                views.push((next, model.len() - 1, "control::Binary"));
                next += 1;
            }
            model.push(vec![("Source".to_string(), "newsrc".to_string())]);
            events.push(Ev::AddSource { name: "newsrc".into(), out: next });
            views.push((next, model.len() - 1, "control::Source"));
            next += 1;
        }
        for _ in 0..nsteps {
            seq += 1;
            let choice = rng.below(10);
            if kind == "control" && rng.chance(1, 12) {
                let name = format!("newbin{seq}");
                model.push(vec![("Package".to_string(), name.clone())]);
                events.push(Ev::AddBinary { name, out: next });
                views.push((next, model.len() - 1, "control::Binary"));
                next += 1;
                continue;
            }
            if kind == "control" && !model.is_empty() && rng.chance(1, 14) {
                let para = rng.below(model.len());
                if let Some(vk) = view_kind_for(kind, &model[para], para) {
                    let cands: Vec<&Row> = table.iter().filter(|r| r.view == vk && matches!(r.gen, G::Word | G::Line | G::Url) && r.merge.is_none() && r.alias.is_none()).collect();
                    if !cands.is_empty() {
                        let row = cands[rng.below(cands.len())];
                        events.push(Ev::WrapThenSet { para, row: format!("{}.{}", row.view, row.accessor), arg: gen_arg(rng, row.gen, seq) });
                    }
                }
                continue;
            }
            if views.is_empty() || choice < 2 {
                if kind == "dep3" || model.is_empty() {
                    continue;
                }
                let para = rng.below(model.len());
                if let Some(vk) = view_kind_for(kind, &model[para], para) {
                    events.push(Ev::View { para, out: next });
                    views.push((next, para, vk));
                    next += 1;
                }
                continue;
            }
            if choice == 9 && kind == "dep3" {
                let faulty = rng.chance(1, 3);
                events.push(Ev::Persist { plan: gen_write_plan(rng, 120, faulty) });
                continue;
            }
            if choice == 9 && kind != "dep3" {
                events.push(Ev::Restart { plan: gen_read_plan(rng, 100, false) });
                views.clear();
                continue;
            }
            let (vid, _para, vk) = views[rng.below(views.len())];
            let cands: Vec<&Row> = table.iter().filter(|r| r.view == vk).collect();
            if cands.is_empty() {
                continue;
            }
            // bias towards touching the same few fields repeatedly (append-instead-of-replace, cross-talk)
            let row = cands[(rng.below(4) * 7 + if rng.chance(1, 2) { 0 } else { rng.below(cands.len()) }) % cands.len()];
            let key = format!("{}.{}", row.view, row.accessor);
            if choice == 8 {
                events.push(Ev::Get { view: vid, row: key });
            } else {
                let arg = if row.clears && rng.chance(1, 4) {
                    if row.gen == G::Bool {
                        Arg::B(false)
                    } else {
                        Arg::Clear
                    }
                } else {
                    let a = gen_arg(rng, row.gen, seq);
                    if row.gen == G::Bool && row.clears {
                        Arg::B(true)
                    } else if row.accessor == "set_long_description" && matches!(&a, Arg::L(l) if l.is_empty()) {
                        // an empty long description has no encoding of its own
                        Arg::L(vec![format!("l{seq}")])
                    } else {
                        a
                    }
                };
                events.push(Ev::Set { view: vid, row: key, arg });
            }
        }
        Case { kind: kind.to_string(), text, events }
    }

    fn execute(c: &Case, obs: &mut Obs) -> Result<(), Violation> {
        let table = rows();
        if c.kind == "changes" {
            return check_changes(c, obs);
        }
        probe::at("open");
        let mut l = match open(&c.kind, &c.text) {
            Some(l) => l,
            None => {
                obs.count("reach.init_skipped");
                return Ok(());
            }
        };
        // getters on parsed text: the documented reading of the raw field
        for (pi, para) in l.model.clone().iter().enumerate() {
            let vk = match view_kind_for(&c.kind, para, pi) {
                Some(x) => x,
                None => continue,
            };
            let view = if c.kind == "dep3" { None } else { make_view(&l, &c.kind, pi) };
            let view_ref: &AnyView = match (&view, l.views.get(&0)) {
                (Some(vw), _) => vw,
                (None, Some((_, vw))) if c.kind == "dep3" => vw,
                _ => continue,
            };
            for row in table.iter().filter(|r| r.view == vk) {
                if let Some((_, raw)) = para.iter().find(|e| e.0 == row.field) {
                    if row.field == "Description" && row.view == "dep3::PatchHeader" {
                        // the getter documents a Subject fallback only when Description is absent
                    }
                    probe::at(Box::leak(format!("{}.getter({})", row.view, row.field).into_boxed_str()));
                    obs.prestate = "raw-text".into();
                    let got = (row.get)(view_ref);
                    let want = (row.decode)(raw);
                    obs.step();
                    obs.count("op.getter_on_raw_text");
                    if got != want {
                        return Err(v("getter-on-raw-text", &format!("{}.{}", row.view, row.accessor), "raw-text", format!("field {} with raw text {:?}: getter returns {:?}, documented reading {:?}", row.field, raw, got, want)));
                    }
                }
            }
        }
        if let Doc::Cr(cr) = &l.doc {
            probe::at("copyright getters");
            obs.prestate = "raw-text".into();
            if let (Some(h), Some(p0)) = (cr.header(), l.model.first()) {
                let want = p0.iter().find(|e| e.0 == "Format").or_else(|| p0.iter().find(|e| e.0 == "Format-Specification")).map(|e| e.1.clone());
                if h.format_string() != want {
                    return Err(v("getter-on-raw-text", "copyright::Header.format_string", "raw-text", format!("format_string() = {:?}, raw field {:?}", h.format_string(), want)));
                }
            }
            let files_paras: Vec<&Vec<(String, String)>> = l.model.iter().filter(|p| p.iter().any(|e| e.0 == "Files")).collect();
            for (k, fp) in cr.iter_files().enumerate() {
                if let Some(p) = files_paras.get(k) {
                    let want: Vec<String> = p.iter().find(|e| e.0 == "Files").map(|e| e.1.split_whitespace().map(|x| x.to_string()).collect()).unwrap_or_default();
                    if fp.files() != want {
                        return Err(v("getter-on-raw-text", "copyright::FilesParagraph.files", "raw-text", format!("files() = {:?}, documented reading {:?}", fp.files(), want)));
                    }
                }
            }
        }
        if let Doc::Cr(cr) = &l.doc {
            let files_paras: Vec<&Vec<(String, String)>> = l.model.iter().filter(|p| p.iter().any(|e| e.0 == "Files")).collect();
            // licence paragraphs and the lookups built on them
            let lic_paras: Vec<&Vec<(String, String)>> = l.model.iter().filter(|p| !p.iter().any(|e| e.0 == "Files") && p.iter().any(|e| e.0 == "License")).collect();
            let got_n = cr.iter_licenses().count();
            if got_n != lic_paras.len() {
                return Err(v("view-lookup", "copyright::Copyright.iter_licenses", "raw-text", format!("iter_licenses() yields {got_n} paragraphs, the text has {} paragraphs with License and without Files", lic_paras.len())));
            }
            let name_of = |p: &Vec<(String, String)>| p.iter().find(|e| e.0 == "License").map(|e| e.1.split('\n').next().unwrap_or("").to_string());
            for p in &lic_paras {
                if let Some(name) = name_of(p) {
                    if name.is_empty() {
                        continue;
                    }
                    let first = lic_paras.iter().find(|q| name_of(q).as_deref() == Some(name.as_str())).unwrap();
                    let raw = first.iter().find(|e| e.0 == "License").map(|e| e.1.clone()).unwrap_or_default();
                    let want = match raw.split_once('\n') {
                        None => format!("Name({:?})", raw),
                        Some((n, t)) => format!("Named({:?}, {:?})", n, t),
                    };
                    let got = cr.find_license_by_name(&name).map(|x| format!("{:?}", x));
                    if got.as_deref() != Some(want.as_str()) {
                        return Err(v("view-lookup", "copyright::Copyright.find_license_by_name", "raw-text", format!("find_license_by_name({name:?}) = {:?}, the first licence paragraph of that name reads {want}", got)));
                    }
                }
            }
            // files paragraph responsible for a file name: the last one with a matching pattern
            for fname in ["debian/rules", "src/main.c", "x/y/z", "README", "foo*", "aXb"] {
                let want_idx = files_paras.iter().enumerate().filter(|(_, p)| p.iter().find(|e| e.0 == "Files").map(|e| e.1.split_whitespace().any(|g| ref_glob(g, fname))).unwrap_or(false)).map(|x| x.0).last();
                let got = cr.find_files(std::path::Path::new(fname)).map(|fp| fp.files());
                let want = want_idx.map(|i| files_paras[i].iter().find(|e| e.0 == "Files").map(|e| e.1.split_whitespace().map(|x| x.to_string()).collect::<Vec<_>>()).unwrap_or_default());
                if got != want {
                    return Err(v("view-lookup", "copyright::Copyright.find_files", "raw-text", format!("find_files({fname:?}) gives the paragraph with Files {:?}, the last matching paragraph has {:?}", got, want)));
                }
            }
            obs.count("op.getter_on_raw_text");
        }
        if c.kind == "dep3" {
            if let (Some((_, AnyView::D3(h))), Some(p0)) = (l.views.get(&0), l.model.first()) {
                probe::at("dep3 bug getters");
                obs.prestate = "raw-text".into();
                let want: Vec<(Option<String>, String)> = p0.iter().filter_map(|(k, val)| if k == "Bug" { Some((None, val.clone())) } else { k.strip_prefix("Bug-").map(|vn| (Some(vn.to_string()), val.clone())) }).collect();
                let got: Vec<(Option<String>, String)> = h.bugs().collect();
                if got != want {
                    return Err(v("getter-on-raw-text", "dep3::PatchHeader.bugs", "raw-text", format!("bugs() = {:?}, the Bug / Bug-<vendor> fields read {:?}", got, want)));
                }
                for vendor in ["Debian", "Ubuntu", "debian"] {
                    let wantv: Vec<String> = want.iter().filter(|x| x.0.as_deref() == Some(vendor)).map(|x| x.1.clone()).collect();
                    let gotv: Vec<String> = h.vendor_bugs(vendor).collect();
                    if gotv != wantv {
                        return Err(v("getter-on-raw-text", "dep3::PatchHeader.vendor_bugs", "raw-text", format!("vendor_bugs({vendor:?}) = {:?}, expected {:?}", gotv, wantv)));
                    }
                }
                // DEP-3 spells the field "Reviewed-by" (so does the lossy type); field names are matched without regard to case
                let wantr: Vec<String> = p0.iter().filter(|e| e.0.eq_ignore_ascii_case("Reviewed-by")).map(|e| e.1.clone()).collect();
                if h.reviewed_by() != wantr {
                    return Err(v("getter-on-raw-text", "dep3::PatchHeader.reviewed_by", "raw-text", format!("reviewed_by() = {:?}, the Reviewed-by fields read {:?}", h.reviewed_by(), wantr)));
                }
                obs.count("op.getter_on_raw_text");
            }
        }
        let mut sets_per_para: BTreeMap<usize, usize> = BTreeMap::new();
        let mut interesting = false;
        let mut restarted_after_set = false;
        let mut any_set = false;
        for ev in &c.events {
            obs.step();
            match ev {
                Ev::AddSource { name, out } => {
                    if l.model.iter().any(|p| p.iter().any(|e| e.0 == "Source")) {
                        continue;
                    }
                    if let Doc::Ctl(ctl) = &mut l.doc {
                        let before = ctl.to_string();
                        probe::at("Control::add_source");
                        obs.prestate = if l.model.is_empty() { "empty-file".into() } else { "binaries-first".into() };
                        obs.count("op.add_source");
                        let sv = ctl.add_source(name);
                        l.model.push(vec![("Source".to_string(), name.clone())]);
                        let para = l.model.len() - 1;
                        if sv.name().as_deref() != Some(name.as_str()) {
                            return Err(v("getter-after-setter", "Control::add_source", &obs.prestate.clone(), format!("add_source({name:?}) returned a view whose name() is {:?}", sv.name())));
                        }
                        l.views.insert(*out, (para, AnyView::CS(sv)));
                        let after = doc_text(&l);
                        match Deb822::from_str(&after) {
                            Err(e) => return Err(v("restart-error", "Control::add_source", "new-paragraph", format!("after add_source the text {:?} does not re-read: {}", after, e.to_string().trim()))),
                            Ok(d) => {
                                let got: Vec<Vec<(String, String)>> = d.paragraphs().map(|p| p.items().collect()).collect();
                                if norm_env(got.clone()) != norm_env(l.model.clone()) {
                                    return Err(v("model-content", "Control::add_source", "new-paragraph", format!("after add_source({name:?}) on {:?} the text {:?} holds {:?}, expected {:?}", before, after, got, l.model)));
                                }
                            }
                        }
                    }
                }
                Ev::AddBinary { name, out } => {
                    if let Doc::Ctl(ctl) = &mut l.doc {
                        let before = ctl.to_string();
                        probe::at("Control::add_binary");
                        obs.prestate = if before.ends_with('\n') || before.is_empty() { "final-newline".into() } else { "no-final-newline".into() };
                        obs.count("op.add_binary");
                        let b = ctl.add_binary(name);
                        l.model.push(vec![("Package".to_string(), name.clone())]);
                        let para = l.model.len() - 1;
                        if b.name().as_deref() != Some(name.as_str()) {
                            return Err(v("getter-after-setter", "Control::add_binary", "new-paragraph", format!("add_binary({name:?}) returned a view whose name() is {:?}", b.name())));
                        }
                        l.views.insert(*out, (para, AnyView::CB(b)));
                        let after = doc_text(&l);
                        match Deb822::from_str(&after) {
                            Err(e) => return Err(v("restart-error", "Control::add_binary", "new-paragraph", format!("after add_binary the text {:?} does not re-read: {}", after, e.to_string().trim()))),
                            Ok(d) => {
                                let got: Vec<Vec<(String, String)>> = d.paragraphs().map(|p| p.items().collect()).collect();
                                if norm_env(got.clone()) != norm_env(l.model.clone()) {
                                    return Err(v("model-content", "Control::add_binary", "new-paragraph", format!("after add_binary({name:?}) on {:?} the text {:?} holds {:?}, expected {:?}", before, after, got, l.model)));
                                }
                            }
                        }
                    }
                }
                Ev::View { para, out } => {
                    // a control file's source and binary paragraphs are found by their Source and Package fields
                    if let Doc::Ctl(ctl) = &l.doc {
                        probe::at("Control::source+binaries");
                        obs.prestate = "lookup".into();
                        let want_source = l.model.iter().find(|p| p.iter().any(|e| e.0 == "Source") && !p.iter().any(|e| e.0 == "Package")).and_then(|p| p.iter().find(|e| e.0 == "Source").map(|e| e.1.clone()));
                        let got_source = ctl.source().and_then(|s| s.name());
                        let want_bins: Vec<String> = l.model.iter().filter_map(|p| p.iter().find(|e| e.0 == "Package").map(|e| e.1.clone())).collect();
                        let got_bins: Vec<String> = ctl.binaries().filter_map(|b| b.name()).collect();
                        if got_source != want_source || got_bins != want_bins {
                            return Err(v("view-lookup", "Control::source+binaries", if l.model.first().map(|p| p.iter().any(|e| e.0 == "Source")).unwrap_or(false) { "source-first" } else { "source-not-first" }, format!("source() names {:?} (expected {:?}), binaries() name {:?} (expected {:?}); text {:?}", got_source, want_source, got_bins, want_bins, doc_text(&l))));
                        }
                    }
                    if let Some(vw) = make_view(&l, &c.kind, *para) {
                        if l.views.values().any(|(p, _)| p == para) {
                            obs.count("reach.second_view_of_same_paragraph");
                        }
                        l.views.insert(*out, (*para, vw));
                    }
                }
                Ev::WrapThenSet { para, row, arg } => {
                    let rowdef = match table.iter().find(|r| format!("{}.{}", r.view, r.accessor) == *row) {
                        Some(r) => r,
                        None => continue,
                    };
                    if *para >= l.model.len() || view_kind_for(&c.kind, &l.model[*para], *para) != Some(rowdef.view) {
                        continue;
                    }
                    // wrap_and_sort's treatment of comments and folded values is C07; keep to plain paragraphs
                    if l.model[*para].iter().any(|e| e.1.contains('\n')) || doc_text(&l).contains('#') {
                        continue;
                    }
                    let before = doc_text(&l);
                    if let Some(mut vw) = make_view(&l, &c.kind, *para) {
                        probe::at(Box::leak(format!("wrap_and_sort+{row}").into_boxed_str()));
                        obs.prestate = "rebuilt-by-wrap_and_sort".into();
                        obs.count("op.wrap_then_set");
                        // what wrap_and_sort itself does (including whether the relation ordering it sorts long
                        // dependency lists with is a total order: std's sort panics when it is not) is C07/C13, not claimed
                        let wrapped = std::panic::catch_unwind(std::panic::AssertUnwindSafe(|| match &mut vw {
                            AnyView::CS(x) => x.wrap_and_sort(deb822_lossless::Indentation::Spaces(1), false, Some(79)),
                            AnyView::CB(x) => x.wrap_and_sort(deb822_lossless::Indentation::Spaces(1), false, Some(79)),
                            _ => {}
                        }));
                        if wrapped.is_err() {
                            obs.count("reach.wrap_and_sort_panicked");
                            continue;
                        }
                        (rowdef.set)(&mut vw, arg);
                        let got = (rowdef.get)(&vw);
                        let want = (rowdef.expect)(arg);
                        if got != want {
                            return Err(v("getter-after-setter", row, "rebuilt-by-wrap_and_sort", format!("after wrap_and_sort on a view of paragraph {para} and {row}({:?}) the getter returns {:?}, expected {:?}", arg, got, want)));
                        }
                        if doc_text(&l) != before {
                            return Err(v("model-content", row, "rebuilt-by-wrap_and_sort", format!("normalising and editing a view moved the document: {:?} -> {:?}", before, doc_text(&l))));
                        }
                    }
                }
                Ev::Persist { plan } => {
                    let text = doc_text(&l);
                    let mut sink = SimSink::new(plan);
                    probe::at("dep3::PatchHeader::write");
                    obs.prestate = if plan.fail_at.is_some() { "sink-fails".into() } else { "sink-ok".into() };
                    let res = match l.views.get(&0) {
                        Some((_, AnyView::D3(h))) => h.write(&mut sink),
                        _ => continue,
                    };
                    obs.add("fault.short_write", sink.fired.short_writes);
                    obs.add("fault.write_eintr", sink.fired.eintr);
                    obs.add("fault.write_hard_error", sink.fired.hard_error);
                    obs.add("fault.write_zero", sink.fired.zero);
                    let must_fail = match &plan.fail_at {
                        Some(c) => c.at < text.len(),
                        None => false,
                    };
                    match res {
                        Ok(()) => {
                            if must_fail {
                                return Err(v("io-error-masked", "PatchHeader::write", "sink-fails", format!("the sink accepts only {} of {} bytes but write returned Ok", plan.fail_at.as_ref().unwrap().at, text.len())));
                            }
                            if sink.durable != text.as_bytes() {
                                return Err(v("durability", "PatchHeader::write", "sink-ok", format!("write returned Ok but the sink holds {:?}, the header prints {:?}", String::from_utf8_lossy(&sink.durable), text)));
                            }
                            // crash + restart: only the durable image survives
                            obs.count("fault.restart");
                            match dep3::lossless::PatchHeader::from_str(&text) {
                                Ok(h) => {
                                    let got: Vec<(String, String)> = h.as_deb822().items().collect();
                                    if vec![got.clone()] != l.model {
                                        return Err(v("restart-content", "PatchHeader::write", "sink-ok", format!("persisted header {:?} reloads as {:?}, expected {:?}", text, got, l.model)));
                                    }
                                    l.views.insert(0, (0, AnyView::D3(h)));
                                    if any_set {
                                        restarted_after_set = true;
                                    }
                                }
                                Err(e) => {
                                    if !l.model[0].is_empty() {
                                        return Err(v("restart-error", "PatchHeader::write", "sink-ok", format!("persisted header {:?} does not load: {}", text, e.to_string().trim())));
                                    }
                                }
                            }
                        }
                        Err(e) => {
                            if !must_fail {
                                return Err(v("io-error-spurious", "PatchHeader::write", "sink-ok", format!("no hard fault before the end (EINTR fired {} times, short writes {}) but write failed: {e}", sink.fired.eintr, sink.fired.short_writes)));
                            }
                            // torn write: what was accepted is a prefix, never wrong bytes
                            if !text.as_bytes().starts_with(&sink.durable) {
                                return Err(v("durability", "PatchHeader::write", "sink-fails", format!("after a failed write the sink holds {:?}, not a prefix of {:?}", String::from_utf8_lossy(&sink.durable), text)));
                            }
                        }
                    }
                }
                Ev::Restart { plan } => {
                    obs.count("fault.restart");
                    let text = doc_text(&l);
                    probe::at("restart");
                    let mut r = SimReader::new(text.as_bytes(), plan);
                    let re = Deb822::read(&mut r);
                    obs.io(&r.fired);
                    match re {
                        Err(e) => return Err(v("restart-error", "restart", "after-setters", format!("persisted text {:?} does not load: {}", text, e.to_string().trim()))),
                        Ok(d) => {
                            let got: Vec<Vec<(String, String)>> = d.paragraphs().map(|p| p.items().collect()).collect();
                            if norm_env(got.clone()) != norm_env(l.model.clone()) {
                                return Err(v("restart-content", "restart", "after-setters", format!("persisted text {:?} loads as {:?}, expected {:?}", text, got, l.model)));
                            }
                            match c.kind.as_str() {
                                "copyright" => match debian_copyright::lossless::Copyright::from_str(&text) {
                                    Ok(cr) => l.doc = Doc::Cr(cr),
                                    Err(_) => return Ok(()),
                                },
                                "control" => l.doc = Doc::Ctl(d.into()),
                                _ => l.doc = Doc::Plain(d),
                            }
                            l.views.clear();
                            if any_set {
                                restarted_after_set = true;
                            }
                        }
                    }
                }
                Ev::Get { view, row } | Ev::Set { view, row, .. } => {
                    let rowdef = match table.iter().find(|r| &format!("{}.{}", r.view, r.accessor) == row) {
                        Some(r) => r,
                        None => continue,
                    };
                    let para = match l.views.get(view) {
                        Some((p, _)) => *p,
                        None => continue,
                    };
                    let before = doc_text(&l);
                    let pre = prior_state(&l.model[para], rowdef.field, &before);
                    obs.prestate = pre.clone();
                    let n_views = l.views.values().filter(|(p, _)| *p == para).count();
                    obs.state(key_of(&[row, &pre, &n_views.to_string()]));
                    if let Ev::Set { arg, .. } = ev {
                        obs.count("op.setter");
                        probe::at(Box::leak(row.clone().into_boxed_str()));
                        let present = l.model[para].iter().any(|e| e.0 == rowdef.field);
                        {
                            let (_, vw) = l.views.get_mut(view).unwrap();
                            (rowdef.set)(vw, arg);
                        }
                        any_set = true;
                        *sets_per_para.entry(para).or_insert(0) += 1;
                        if sets_per_para[&para] >= 2 || n_views >= 2 || restarted_after_set {
                            interesting = true;
                        }
                        // list model: exactly one field with the documented name holds the reference encoding
                        let enc = (rowdef.encode)(arg);
                        let mut target_field = rowdef.field.to_string();
                        if let Some(al) = rowdef.alias {
                            if !l.model[para].iter().any(|x| x.0 == rowdef.field) && l.model[para].iter().any(|x| x.0 == al) {
                                target_field = al.to_string();
                            }
                        }
                        let mut merged_value: Option<String> = None;
                        match &enc {
                            Some(e) => {
                                let old = l.model[para].iter().find(|x| x.0 == target_field).map(|x| x.1.clone());
                                let newval = match rowdef.merge {
                                    Some(m) => m(old.as_deref(), arg),
                                    None => e.clone(),
                                };
                                merged_value = Some(newval.clone());
                                if let Some(x) = l.model[para].iter_mut().find(|x| x.0 == target_field) {
                                    x.1 = newval;
                                } else {
                                    l.model[para].push((target_field.clone(), newval));
                                }
                            }
                            None => l.model[para].retain(|x| x.0 != rowdef.field),
                        }
                        let after = doc_text(&l);
                        obs.event(&after);
                        // getter through every live view of this paragraph, and through a fresh one
                        let _ = &merged_value;
                        let want = if rowdef.accessor == "fix" { merged_value.clone() } else { (rowdef.expect)(arg) };
                        let want = if rowdef.gen == G::Bool && rowdef.clears && !arg.b() { Some("false".to_string()) } else { want };
                        let fresh = make_view(&l, &c.kind, para);
                        let mut all: Vec<(String, &AnyView)> = l.views.iter().filter(|(_, (p, _))| *p == para).map(|(id, (_, vw))| (format!("view {id}"), vw)).collect();
                        if let Some(f) = &fresh {
                            all.push(("a fresh view".to_string(), f));
                        }
                        for (name, vw) in all {
                            let got = (rowdef.get)(vw);
                            if got != want {
                                return Err(v("getter-after-setter", row, &pre, format!("after {row}({:?}) through view {view}: getter through {name} returns {:?}, expected {:?}; text {:?}", arg, got, want, after)));
                            }
                        }
                        // Source::vcs(): the first Vcs-* field other than Vcs-Browser, read as that system's location
                        if let Some((_, AnyView::CS(src))) = l.views.get(view) {
                            let want = l.model[para].iter().find(|e| e.0.starts_with("Vcs-") && e.0 != "Vcs-Browser").and_then(|e| debian_control::vcs::Vcs::from_field(&e.0[4..], &e.1).ok());
                            let got = src.vcs();
                            if format!("{:?}", got) != format!("{:?}", want) {
                                return Err(v("getter-after-setter", "control::Source.vcs", &pre, format!("vcs() = {:?}, the paragraph's first Vcs-* field reads as {:?}", got, want)));
                            }
                        }
                        // what the text says (strict re-read == live content == list model)
                        match Deb822::from_str(&after) {
                            Err(e) => return Err(v("restart-error", row, &pre, format!("after {row}({:?}) the printed text {:?} does not re-read: {}", arg, after, e.to_string().trim()))),
                            Ok(d) => {
                                let got: Vec<Vec<(String, String)>> = d.paragraphs().map(|p| p.items().collect()).collect();
                                let got = norm_env(got);
                                if got != norm_env(l.model.clone()) {
                                    let gp = got.get(para).cloned().unwrap_or_default();
                                    let n = gp.iter().filter(|e| e.0 == target_field).count();
                                    let clause = if n > 1 { "field-duplicated" } else if enc.is_some() && n == 0 { "field-name" } else { "model-content" };
                                    return Err(v(clause, row, &pre, format!("after {row}({:?}): text {:?} holds {:?} in the paragraph, the list model (one field {:?} = reference encoding, others untouched) says {:?}", arg, after, gp, target_field, l.model.get(para))));
                                }
                            }
                        }
                        // nothing else moves
                        let ord = |m: &Vec<Vec<(String, String)>>| -> Option<usize> {
                            if m[para].is_empty() {
                                None
                            } else {
                                Some(m[..para].iter().filter(|p| !p.is_empty()).count())
                            }
                        };
                        let ord_after = ord(&l.model);
                        let newv = l.model[para].iter().find(|x| x.0 == target_field).map(|x| x.1.clone());
                        let fop = match (&enc, present || (target_field != rowdef.field)) {
                            (Some(_), true) => super::c04_c05_session::FieldOp::Replace { name: &target_field, new_name: &target_field, value: newv.as_deref().unwrap_or("") },
                            (Some(_), false) => super::c04_c05_session::FieldOp::Append { name: &target_field, value: newv.as_deref().unwrap_or("") },
                            (None, _) => super::c04_c05_session::FieldOp::Remove { name: rowdef.field },
                        };
                        // ordinal before == ordinal after unless the paragraph had no text before (never: views exist only for non-empty paragraphs)
                        if let Err(d) = super::c04_c05_session::locality_field(&before, &after, ord_after.or(Some(0)), ord_after, &fop, obs) {
                            return Err(v("locality", row, &pre, format!("{row}({:?}): {d}; before {:?} after {:?}", arg, before, after)));
                        }
                    } else {
                        obs.count("op.getter");
                        probe::at(Box::leak(format!("{row}.get").into_boxed_str()));
                        let (_, vw) = l.views.get(view).unwrap();
                        let got = (rowdef.get)(vw);
                        let want = l.model[para].iter().find(|e| e.0 == rowdef.field).and_then(|e| (rowdef.decode)(&e.1));
                        let want = if rowdef.gen == G::Bool && rowdef.clears && want.is_none() { Some("false".into()) } else if matches!(rowdef.accessor, "set_acquire_by_hash" | "set_no_support_for_architecture_all") && want.is_none() { Some("false".into()) } else { want };
                        let want = if let (Some(al), true) = (rowdef.alias, want.is_none()) {
                            l.model[para].iter().find(|e| e.0 == al).and_then(|e| (rowdef.decode)(&e.1))
                        } else if matches!(rowdef.gen, G::Md5s | G::Sha1s | G::Sha256s | G::Sha512s) && want.is_none() {
                            // these getters return a plain list: no field, no items
                            Some(jl(&[]))
                        } else if rowdef.accessor == "set_copyright" && want.is_none() {
                            Some(jl(&[]))
                        } else {
                            want
                        };
                        if got != want {
                            return Err(v("getter-after-setter", &format!("{row}.get"), &pre, format!("getter returns {:?}, the field holds {:?} whose documented reading is {:?}", got, l.model[para].iter().find(|e| e.0 == rowdef.field), want)));
                        }
                    }
                }
            }
        }
        if interesting {
            obs.nontrivial = Some(key_of(&[&serde_json::to_string(c).unwrap()]));
        }
        Ok(())
    }

    fn hash_sensitive() -> bool {
        true
    }

    fn shrink(c: &Case) -> Vec<Case> {
        let mut out = Vec::new();
        for i in 0..c.events.len() {
            let mut e = c.events.clone();
            e.remove(i);
            out.push(Case { events: e, ..c.clone() });
        }
        // drop whole fields of the initial text
        let lines: Vec<&str> = c.text.split_inclusive('\n').collect();
        let mut i = 0;
        while i < lines.len() {
            let mut j = i + 1;
            while j < lines.len() && (lines[j].starts_with(' ') || lines[j].starts_with('\t')) {
                j += 1;
            }
            let t: String = lines[..i].iter().chain(lines[j..].iter()).cloned().collect();
            out.push(Case { text: t, ..c.clone() });
            i = j;
        }
        for i in 0..c.events.len() {
            if let Ev::Restart { plan } = &c.events[i] {
                if !plan.steps.is_empty() {
                    let mut e = c.events.clone();
                    e[i] = Ev::Restart { plan: ReadPlan::default() };
                    out.push(Case { events: e, ..c.clone() });
                }
            }
        }
        out
    }
}
