//! C01 — the lossless reader reproduces every byte, however the bytes are delivered.
use crate::core::driver::{key_of, Obs, Scenario, Tier, Violation};
use crate::core::io::{gen_read_plan, shrink_read_plan, ReadPlan, ReadStep, SimReader};
use crate::core::probe;
use crate::core::rng::Rng;
use crate::gen::text;
use deb822_lossless::Deb822;
use debian_control::lossless::changes::Changes;
use debian_control::lossless::Control;
use serde::{Deserialize, Serialize};
use serde_json::{json, Value};
use std::str::FromStr;

pub struct C01;

#[derive(Clone, Debug, Serialize, Deserialize)]
pub struct Case {
    /// what the producer stored
    pub text: String,
    /// how the text was made: "wellformed" | "faulted" | "classes"
    pub source: String,
    /// stored-byte faults applied (names), for the record
    pub faults: Vec<String>,
    /// a stored byte overwritten after the fact (offset, value): may make the bytes invalid UTF-8
    pub flip: Option<(usize, u8)>,
    pub plan: ReadPlan,
    /// a second document the same consumer (same thread) loads afterwards through a fault-free source:
    /// state left behind by the first, possibly failed, load must not leak into it
    #[serde(default)]
    pub followup: Option<String>,
    /// the bytes that survived (whole text, torn prefix up to the cut, nothing) are also put in a real file of the
    /// scratch directory and loaded through the from_file entry points; the file is then removed and loaded again
    #[serde(default)]
    pub on_disk: bool,
}

fn bytes_of(c: &Case) -> Vec<u8> {
    let mut b = c.text.as_bytes().to_vec();
    if let Some((i, v)) = c.flip {
        if i < b.len() {
            b[i] = v;
        }
    }
    b
}

const ID: &str = "C01";

fn v(clause: &str, op: &str, pre: &str, detail: String) -> Violation {
    Violation::new(ID, clause, op, pre, detail)
}

fn prestate(c: &Case, expected: &[u8]) -> String {
    let mut p = Vec::new();
    if c.plan.hard_error() {
        p.push("hard-error");
    } else if matches!(&c.plan.cut, Some(_)) {
        p.push("early-eof");
    }
    if std::str::from_utf8(expected).is_err() {
        p.push("invalid-utf8");
    } else if !expected.is_ascii() {
        p.push("non-ascii");
    }
    if !c.plan.steps.is_empty() {
        p.push("chunked");
    }
    if p.is_empty() {
        p.push("plain");
    }
    p.join("+")
}

impl Scenario for C01 {
    type Case = Case;
    const ID: &'static str = ID;
    const LEVEL: &'static str = "exploration";

    fn runs(tier: Tier) -> u64 {
        match tier {
            Tier::Quick => 600_000,
            Tier::Thorough => 12_000_000,
        }
    }
    fn rule() -> &'static str {
        "one case = one stored text (well-formed generator | well-formed + 1-3 stored-byte faults | class-composed string) x one seeded delivery plan (chunk sizes, EINTR, early EOF or hard error at a byte offset, optional byte flip to invalid UTF-8), loaded through Deb822::read, read_relaxed, Control::read, read_relaxed, Changes::read, read_relaxed and from_str/from_str_relaxed as fault-free control; one case in twelve also puts the bytes that survived (whole text or the torn prefix up to the cut) into a real file of the scratch directory, loads it through Deb822::from_file/from_file_relaxed and Control::from_file/from_file_relaxed, removes the file and loads again (must fail); non-trivial = the plan contains at least one fault or short read AND the text is non-empty; distinct = FNV hash of (text, flip, plan)"
    }
    fn state_measure() -> &'static str {
        "distinct (lexer state x character class) pairs met by the delivered text, where lexer state = (start-of-line, colon-seen, indented), plus distinct (outcome class x fault shape) pairs"
    }
    fn assumptions() -> Vec<&'static str> {
        vec![
            "std::io::Read::read_to_string is real; the byte source behind Read is the simulator's SimReader",
            "a clean batch is evidence over the sampled texts and delivery plans, not a proof over all UTF-8 strings",
            "for the from_str clauses the delivery schedule is irrelevant; those are covered as seeded sampling only",
        ]
    }
    fn components() -> Value {
        json!({"real": ["deb822_lossless::{lex, lossless::parse, Deb822::read, read_relaxed, from_str, from_str_relaxed, Display}", "debian_control::lossless::{Control::read, read_relaxed, from_file, from_file_relaxed, Changes::read, read_relaxed}", "deb822_lossless::Deb822::{from_file, from_file_relaxed}, Changes::from_file[_relaxed], debian_copyright::lossless::Copyright::from_file[_relaxed] over real files in the scratch directory (std::fs)", "std::io::Read::read_to_string", "rowan"],
               "stub": ["byte source behind std::io::Read (SimReader: chunking, EINTR, early EOF, hard errors)", "stored bytes (SimDisk image with injected byte faults)", "getrandom (hasher seeds)"]})
    }

    fn generate(rng: &mut Rng, _tier: Tier, k: u64) -> Case {
        // size thresholds: one document past 4 MiB per check, a few past 1 MiB (buffer sizes, caps, u16/u24 lengths);
        // larger ones do not fit the per-run watchdog (a 17 MiB document takes over 15 s through the eight entry points)
        if k == 1 {
            // one document past 16 MiB per check, through the two lossless readers only (each parse takes seconds)
            let unit = "Package: libfoo-dev\nDepends: libc6 (>= 2.36), libfoo1 (= ${binary:Version})\nDescription: development files\n Vernooĳ says: long description line number one of this stanza\n .\n second paragraph of the description\n\n";
            let target = (17 << 20) + rng.below(1 << 18);
            let mut text = String::with_capacity(target + unit.len());
            while text.len() < target {
                text.push_str(unit);
            }
            return Case { text, source: "wellformed-huge".to_string(), faults: vec![], flip: None, plan: ReadPlan::default(), followup: None, on_disk: false };
        }
        if k == 0 || (k % 50_000 == 7) {
            let f = text::DocFlags { max_paras: 3, ..text::DocFlags::swarm(rng) };
            let unit = {
                let mut u = text::doc(rng, &f);
                if !u.ends_with('\n') {
                    u.push('\n');
                }
                if u.trim().is_empty() {
                    u = "Package: a\nDescription: x\n y\n".to_string();
                }
                u.push('\n');
                u
            };
            let target = if k == 0 { (4 << 20) + rng.below(1 << 19) } else { (1 << 20) + rng.below(1 << 19) };
            let mut text = String::with_capacity(target + unit.len());
            while text.len() < target {
                text.push_str(&unit);
            }
            let plan = if rng.chance(1, 2) { ReadPlan::default() } else { ReadPlan { steps: vec![ReadStep::Chunk(1 << 16), ReadStep::Eintr, ReadStep::Chunk(4096), ReadStep::Rest], cut: None } };
            return Case { text, source: "wellformed-large".to_string(), faults: vec![], flip: None, plan, followup: None, on_disk: false };
        }
        let (text, source, faults) = match rng.below(10) {
            0..=3 => {
                let f = text::DocFlags::swarm(rng);
                (text::doc(rng, &f), "wellformed", vec![])
            }
            4..=6 => {
                let f = text::DocFlags::swarm(rng);
                let mut t = text::doc(rng, &f);
                let mut faults = vec![];
                for _ in 0..1 + rng.below(3) {
                    faults.push(text::text_fault(rng, &mut t).to_string());
                }
                (t, "faulted", faults)
            }
            _ => {
                let max = if rng.chance(1, 20) { 400 } else { 24 };
                (text::class_string(rng, max), "classes", vec![])
            }
        };
        let flip = if rng.chance(1, 12) && !text.is_empty() {
            Some((rng.below(text.len()), *rng.pick(&[0xffu8, 0xc3, 0x80, 0xe2, 0xf0, 0xbf])))
        } else {
            None
        };
        let mut text = text;
        if rng.chance(1, 25) {
            text.insert_str(0, rng.s(&["\u{feff}", "\u{200b}", "\u{feff}\u{feff}"]));
        }
        if rng.chance(1, 150) {
            // a clear-signed wrapper is just more text to this reader: it comes back byte for byte
            text = format!("-----BEGIN PGP SIGNED MESSAGE-----\nHash: SHA256\n\n{text}{}-----BEGIN PGP SIGNATURE-----\n\niQIzBAEBCAAdFiEE\n=olY7\n-----END PGP SIGNATURE-----\n", if text.ends_with('\n') || text.is_empty() { "" } else { "\n" });
        }
        let faulty = rng.chance(1, 3);
        let plan = gen_read_plan(rng, text.len(), faulty);
        let followup = if rng.chance(1, 3) {
            let f = text::DocFlags::swarm(rng);
            Some(text::doc(rng, &f))
        } else {
            None
        };
        let on_disk = rng.chance(1, 12);
        Case { text, source: source.to_string(), faults, flip, plan, followup, on_disk }
    }

    fn extra_time(c: &Case) -> std::time::Duration {
        // about a second per MiB and entry point on an idle machine; allow a loaded one forty times that
        std::time::Duration::from_secs(40 * (c.text.len() as u64 >> 20))
    }

    fn execute(c: &Case, obs: &mut Obs) -> Result<(), Violation> {
        if c.source == "wellformed-huge" {
            // size thresholds only: whole document in, whole document out, no error
            obs.prestate = "huge-document".into();
            obs.count("reach.huge_document");
            for strict in [true, false] {
                let label = if strict { "Deb822::read" } else { "Deb822::read_relaxed" };
                probe::at(label);
                let mut r = SimReader::new(c.text.as_bytes(), &c.plan);
                let printed = if strict { Deb822::read(&mut r).map(|d| d.to_string()).map_err(|e| e.to_string()) } else { Deb822::read_relaxed(&mut r).map(|(d, _)| d.to_string()).map_err(|e| e.to_string()) };
                obs.step();
                match printed {
                    Err(e) => return Err(v("io-error-spurious", label, "huge-document", format!("a well-formed document of {} bytes is not loaded: {}", c.text.len(), e.trim()))),
                    Ok(p) if p != c.text => {
                        let common = p.bytes().zip(c.text.bytes()).take_while(|(a, b)| a == b).count();
                        return Err(v("roundtrip-text", label, "huge-document", format!("document of {} bytes comes back as {} bytes (first difference at byte {})", c.text.len(), p.len(), common)));
                    }
                    Ok(_) => {}
                }
            }
            obs.event("huge-ok");
            return Ok(());
        }
        let data = bytes_of(c);
        let expected = c.plan.expected(&data).to_vec();
        let pre = prestate(c, &expected);
        obs.prestate = pre.clone();
        let hard = c.plan.hard_error();
        let exp_str = std::str::from_utf8(&expected).ok().map(|s| s.to_string());
        for f in &c.faults {
            obs.count(&format!("fault.{f}"));
        }
        if c.flip.is_some() {
            obs.count("fault.byte_flip");
        }

        // fault-free control: from_str / from_str_relaxed on the expected text
        let mut ref_errs: Vec<String> = vec![];
        let mut ref_first_para: Option<String> = None;
        let mut ref_nparas = 0usize;
        if let Some(s) = &exp_str {
            obs.prestate = if s.is_ascii() { "ascii-text".into() } else { "non-ascii-text".into() };
            probe::at("from_str_relaxed");
            let (d, errs) = Deb822::from_str_relaxed(s);
            obs.step();
            let printed = d.to_string();
            if &printed != s {
                return Err(v("roundtrip-text", "from_str_relaxed", &pre, format!("input {:?} printed {:?}", s, printed)));
            }
            probe::at("from_str");
            let strict = Deb822::from_str(s);
            obs.step();
            match &strict {
                Ok(d2) => {
                    if !errs.is_empty() {
                        return Err(v("strict-vs-relaxed", "from_str", &pre, format!("strict Ok but relaxed reports {:?} on {:?}", errs, s)));
                    }
                    let p2 = d2.to_string();
                    if &p2 != s {
                        return Err(v("roundtrip-text", "from_str", &pre, format!("input {:?} printed {:?}", s, p2)));
                    }
                }
                Err(_) => {
                    if errs.is_empty() {
                        return Err(v("strict-vs-relaxed", "from_str", &pre, format!("strict Err but relaxed reports no error on {:?}", s)));
                    }
                }
            }
            ref_nparas = d.paragraphs().count();
            ref_first_para = d.paragraphs().next().map(|p| p.to_string());
            ref_errs = errs;
            for sc in text::state_class_pairs(s) {
                obs.state(1000 + sc as u64);
            }
            obs.count(if ref_errs.is_empty() { "reach.text_error_free" } else { "reach.text_with_errors" });
        } else {
            obs.count("reach.invalid_utf8_delivered");
        }

        // the six reader entry points under the delivery plan
        obs.prestate = pre.clone();
        macro_rules! load {
            ($label:expr, $call:expr) => {{
                probe::at($label);
                let mut r = SimReader::new(&data, &c.plan);
                let res = $call(&mut r);
                obs.step();
                obs.io(&r.fired);
                (res, r.fired.clone())
            }};
        }
        // generic expectations shared by all readers
        let check_common = |label: &str, is_ok: bool, io_err: bool, fired: &crate::core::io::IoFired| -> Result<(), Violation> {
            if hard && is_ok {
                return Err(v("io-error-masked", label, &pre, format!("source failed with a hard error after {} bytes but the reader returned Ok", expected.len())));
            }
            if !hard && exp_str.is_none() && is_ok {
                return Err(v("io-error-masked", label, &pre, "delivered bytes are not valid UTF-8 but the reader returned Ok".to_string()));
            }
            if !hard && exp_str.is_some() && io_err {
                return Err(v("io-error-spurious", label, &pre, format!("no hard error was injected (EINTR fired {} times) but the reader returned an I/O error", fired.eintr)));
            }
            Ok(())
        };

        // Deb822::read_relaxed
        {
            let (res, fired) = load!("Deb822::read_relaxed", |r: &mut SimReader| Deb822::read_relaxed(r));
            check_common("Deb822::read_relaxed", res.is_ok(), res.is_err(), &fired)?;
            if let (Ok((d, errs)), Some(s)) = (&res, &exp_str) {
                let printed = d.to_string();
                if &printed != s {
                    return Err(v("roundtrip-text", "Deb822::read_relaxed", &pre, format!("source delivers {:?} (consumer read to end: {}), tree prints {:?}", s, fired.reached_end, printed)));
                }
                if errs != &ref_errs {
                    return Err(v("strict-vs-relaxed", "Deb822::read_relaxed", &pre, format!("errors {:?} differ from from_str_relaxed {:?}", errs, ref_errs)));
                }
            }
            obs.event(&format!("rr:{}", res.is_ok()));
        }
        // Deb822::read
        {
            let (res, fired) = load!("Deb822::read", |r: &mut SimReader| Deb822::read(r));
            let io_err = matches!(&res, Err(deb822_lossless::Error::IoError(_)));
            check_common("Deb822::read", res.is_ok(), io_err, &fired)?;
            if let Some(s) = &exp_str {
                if !hard {
                    match &res {
                        Ok(d) => {
                            if !ref_errs.is_empty() {
                                return Err(v("strict-vs-relaxed", "Deb822::read", &pre, format!("strict reader Ok on {:?} although tolerant reader reports {:?}", s, ref_errs)));
                            }
                            let printed = d.to_string();
                            if &printed != s {
                                return Err(v("roundtrip-text", "Deb822::read", &pre, format!("source delivers {:?} (consumer read to end: {}), tree prints {:?}", s, fired.reached_end, printed)));
                            }
                        }
                        Err(deb822_lossless::Error::ParseError(_)) => {
                            if ref_errs.is_empty() {
                                return Err(v("strict-vs-relaxed", "Deb822::read", &pre, format!("strict reader fails on {:?} although tolerant reader reports no error", s)));
                            }
                        }
                        Err(_) => {}
                    }
                }
            }
            obs.event(&format!("r:{}", res.is_ok()));
        }
        // Control::read_relaxed / read
        {
            let (res, fired) = load!("Control::read_relaxed", |r: &mut SimReader| Control::read_relaxed(r));
            let io_err = matches!(&res, Err(deb822_lossless::Error::IoError(_)));
            check_common("Control::read_relaxed", res.is_ok(), io_err, &fired)?;
            if let (Ok((d, errs)), Some(s)) = (&res, &exp_str) {
                let printed = d.to_string();
                if &printed != s {
                    return Err(v("roundtrip-text", "Control::read_relaxed", &pre, format!("source delivers {:?}, tree prints {:?}", s, printed)));
                }
                if errs != &ref_errs {
                    return Err(v("strict-vs-relaxed", "Control::read_relaxed", &pre, format!("errors {:?} differ from from_str_relaxed {:?}", errs, ref_errs)));
                }
            }
            let (res, fired) = load!("Control::read", |r: &mut SimReader| Control::read(r));
            let io_err = matches!(&res, Err(deb822_lossless::Error::IoError(_)));
            check_common("Control::read", res.is_ok(), io_err, &fired)?;
            if let (Some(s), false) = (&exp_str, hard) {
                match &res {
                    Ok(d) => {
                        let printed = d.to_string();
                        if !ref_errs.is_empty() || &printed != s {
                            return Err(v("roundtrip-text", "Control::read", &pre, format!("source delivers {:?} (relaxed errors {:?}), strict tree prints {:?}", s, ref_errs, printed)));
                        }
                    }
                    Err(deb822_lossless::Error::ParseError(_)) if ref_errs.is_empty() => {
                        return Err(v("strict-vs-relaxed", "Control::read", &pre, format!("strict reader fails on error-free {:?}", s)));
                    }
                    _ => {}
                }
            }
        }
        // Changes::read / read_relaxed: one-paragraph view over the same reader
        {
            use debian_control::lossless::changes::ParseError as CE;
            let (res, fired) = load!("Changes::read", |r: &mut SimReader| Changes::read(r));
            let io_err = matches!(&res, Err(CE::Deb822(deb822_lossless::Error::IoError(_))));
            check_common("Changes::read", res.is_ok(), io_err, &fired)?;
            if let (Some(s), false) = (&exp_str, hard) {
                let want_ok = ref_errs.is_empty() && ref_nparas == 1;
                if res.is_ok() != want_ok {
                    return Err(v("strict-vs-relaxed", "Changes::read", &pre, format!("Changes::read is_ok={} on {:?} with {} paragraphs and errors {:?}", res.is_ok(), s, ref_nparas, ref_errs)));
                }
                if let (Ok(ch), Some(p)) = (&res, &ref_first_para) {
                    let refp: deb822_lossless::Paragraph = Deb822::from_str_relaxed(p).0.paragraphs().next().unwrap();
                    for (getter, key) in [(ch.source(), "Source"), (ch.format(), "Format"), (ch.maintainer(), "Maintainer"), (ch.distribution(), "Distribution")] {
                        if getter != refp.get(key) {
                            return Err(v("roundtrip-text", "Changes::read", &pre, format!("field {key}: chunked read gives {:?}, direct parse {:?}", getter, refp.get(key))));
                        }
                    }
                }
            }
            let (res, fired) = load!("Changes::read_relaxed", |r: &mut SimReader| Changes::read_relaxed(r));
            let io_err = matches!(&res, Err(deb822_lossless::Error::IoError(_)));
            check_common("Changes::read_relaxed", res.is_ok(), io_err, &fired)?;
            if let (Ok((ch, errs)), Some(_)) = (&res, &exp_str) {
                let mut want = ref_errs.clone();
                if ref_nparas > 1 {
                    want.push("multiple paragraphs found".to_string());
                }
                if errs != &want {
                    return Err(v("strict-vs-relaxed", "Changes::read_relaxed", &pre, format!("errors {:?}, expected {:?}", errs, want)));
                }
                if let Some(p) = &ref_first_para {
                    let refp: deb822_lossless::Paragraph = Deb822::from_str_relaxed(p).0.paragraphs().next().unwrap();
                    if ch.source() != refp.get("Source") {
                        return Err(v("roundtrip-text", "Changes::read_relaxed", &pre, "Source differs from direct parse".to_string()));
                    }
                }
            }
            obs.event(&format!("ch:{}", res.is_ok()));
        }
        // stored file: what is on disk is the delivered prefix (a torn or complete write); then the file is lost
        if c.on_disk {
            obs.count("reach.stored_file_loaded");
            if c.plan.cut.is_some() {
                obs.count("fault.torn_file");
            }
            let path = format!("{}/c01-{}-{:?}.deb822", crate::core::driver::scratch_dir(), std::process::id(), std::thread::current().id()).replace(['(', ')'], "");
            if std::fs::write(&path, &expected).is_err() {
                panic!("HARNESS: cannot write {path}");
            }
            let pre3 = format!("stored-file+{}", if exp_str.is_some() { "utf8" } else { "invalid-utf8" });
            probe::at("Deb822::from_file_relaxed");
            let relaxed = Deb822::from_file_relaxed(&path);
            obs.step();
            probe::at("Deb822::from_file");
            let strict = Deb822::from_file(&path);
            obs.step();
            probe::at("Control::from_file_relaxed");
            let ctl = Control::from_file_relaxed(&path);
            obs.step();
            probe::at("Control::from_file");
            let ctl_strict = Control::from_file(&path);
            obs.step();
            match &exp_str {
                Some(s) => {
                    match (&relaxed, &ctl) {
                        (Ok((d, errs)), Ok((cd, cerrs))) => {
                            if &d.to_string() != s || &cd.to_string() != s {
                                return Err(v("roundtrip-text", "from_file_relaxed", &pre3, format!("file holds {:?}, trees print {:?} / {:?}", s, d.to_string(), cd.to_string())));
                            }
                            if errs != &ref_errs || cerrs != &ref_errs {
                                return Err(v("strict-vs-relaxed", "from_file_relaxed", &pre3, format!("errors {:?} / {:?} differ from from_str_relaxed {:?}", errs, cerrs, ref_errs)));
                            }
                        }
                        _ => return Err(v("io-error-spurious", "from_file_relaxed", &pre3, format!("a readable UTF-8 file {:?} could not be loaded", s))),
                    }
                    for (label, ok, printed) in [("Deb822::from_file", strict.is_ok(), strict.as_ref().ok().map(|d| d.to_string())), ("Control::from_file", ctl_strict.is_ok(), ctl_strict.as_ref().ok().map(|d| d.to_string()))] {
                        if ok != ref_errs.is_empty() {
                            return Err(v("strict-vs-relaxed", label, &pre3, format!("strict load of file {:?} is_ok={} but from_str_relaxed reports {:?}", s, ok, ref_errs)));
                        }
                        if let Some(p) = printed {
                            if &p != s {
                                return Err(v("roundtrip-text", label, &pre3, format!("file holds {:?}, tree prints {:?}", s, p)));
                            }
                        }
                    }
                }
                None => {
                    if relaxed.is_ok() || strict.is_ok() || ctl.is_ok() || ctl_strict.is_ok() {
                        return Err(v("io-error-masked", "from_file", &pre3, "file bytes are not valid UTF-8 but a from_file entry point returned Ok".to_string()));
                    }
                }
            }
            // the one-paragraph and copyright views over the same file
            {
                probe::at("Changes::from_file");
                let ch = Changes::from_file(&path);
                let chr = Changes::from_file_relaxed(&path);
                probe::at("Copyright::from_file");
                let cp = debian_copyright::lossless::Copyright::from_file(&path);
                let cpr = debian_copyright::lossless::Copyright::from_file_relaxed(&path);
                obs.step();
                match &exp_str {
                    None => {
                        if ch.is_ok() || chr.is_ok() || cp.is_ok() || cpr.is_ok() {
                            return Err(v("io-error-masked", "from_file", &pre3, "file bytes are not valid UTF-8 but Changes/Copyright::from_file[_relaxed] returned Ok".to_string()));
                        }
                    }
                    Some(s) => {
                        let want_ok = ref_errs.is_empty() && ref_nparas == 1;
                        if ch.is_ok() != want_ok {
                            return Err(v("strict-vs-relaxed", "Changes::from_file", &pre3, format!("is_ok={} on file {:?} with {} paragraphs and errors {:?}", ch.is_ok(), s, ref_nparas, ref_errs)));
                        }
                        match &chr {
                            Ok((chv, errs)) => {
                                let mut want = ref_errs.clone();
                                if ref_nparas > 1 {
                                    want.push("multiple paragraphs found".to_string());
                                }
                                if errs != &want {
                                    return Err(v("strict-vs-relaxed", "Changes::from_file_relaxed", &pre3, format!("errors {:?}, expected {:?}", errs, want)));
                                }
                                if let Some(p) = &ref_first_para {
                                    let refp: deb822_lossless::Paragraph = Deb822::from_str_relaxed(p).0.paragraphs().next().unwrap();
                                    if chv.source() != refp.get("Source") {
                                        return Err(v("roundtrip-text", "Changes::from_file_relaxed", &pre3, "Source differs from direct parse".to_string()));
                                    }
                                }
                            }
                            Err(_) => return Err(v("io-error-spurious", "Changes::from_file_relaxed", &pre3, format!("a readable UTF-8 file {:?} could not be loaded", s))),
                        }
                        // the copyright view must agree with its own from_str on the same text
                        use std::str::FromStr;
                        let direct = debian_copyright::lossless::Copyright::from_str(s);
                        if direct.is_ok() != cp.is_ok() || direct.as_ref().ok().map(|x| x.to_string()) != cp.as_ref().ok().map(|x| x.to_string()) {
                            return Err(v("roundtrip-text", "Copyright::from_file", &pre3, format!("from_file and from_str disagree on {:?}", s)));
                        }
                        let direct_r = debian_copyright::lossless::Copyright::from_str_relaxed(s);
                        let same = match (&direct_r, &cpr) {
                            (Ok((a, ea)), Ok((b, eb))) => a.to_string() == b.to_string() && ea == eb,
                            (Err(_), Err(_)) => true,
                            _ => false,
                        };
                        if !same {
                            return Err(v("roundtrip-text", "Copyright::from_file_relaxed", &pre3, format!("from_file_relaxed and from_str_relaxed disagree on {:?}", s)));
                        }
                        if let Ok((b, _)) = &cpr {
                            if &b.to_string() != s {
                                return Err(v("roundtrip-text", "Copyright::from_file_relaxed", &pre3, format!("file holds {:?}, copyright tree prints {:?}", s, b.to_string())));
                            }
                        }
                    }
                }
            }
            let _ = std::fs::remove_file(&path);
            obs.count("fault.file_lost");
            if Changes::from_file(&path).is_ok() || Changes::from_file_relaxed(&path).is_ok() || debian_copyright::lossless::Copyright::from_file(&path).is_ok() || debian_copyright::lossless::Copyright::from_file_relaxed(&path).is_ok() {
                return Err(v("io-error-masked", "from_file", "file-lost", "the file does not exist but Changes/Copyright::from_file[_relaxed] returned Ok".to_string()));
            }
            if Deb822::from_file_relaxed(&path).is_ok() || Deb822::from_file(&path).is_ok() || Control::from_file(&path).is_ok() || Control::from_file_relaxed(&path).is_ok() {
                return Err(v("io-error-masked", "from_file", "file-lost", "the file does not exist but a from_file entry point returned Ok".to_string()));
            }
            obs.step();
        }
        // the same consumer loads a second document: nothing of the first load may leak into it
        if let Some(t2) = &c.followup {
            obs.count("reach.followup_load_after_faulty_load");
            let whole = ReadPlan::default();
            obs.prestate = format!("after-{}", if hard { "hard-error" } else if c.plan.cut.is_some() { "early-eof" } else { "clean-load" });
            let pre2 = obs.prestate.clone();
            let (want, want_errs) = Deb822::from_str_relaxed(t2);
            let want = want.to_string();
            macro_rules! second {
                ($label:expr, $call:expr) => {{
                    probe::at($label);
                    let mut r = SimReader::new(t2.as_bytes(), &whole);
                    let got: Option<(String, Vec<String>)> = $call(&mut r);
                    obs.step();
                    match got {
                        Some((printed, errs)) => {
                            if printed != want || errs != want_errs {
                                return Err(v("state-leak", $label, &pre2, format!("second load of {:?} on the same thread gave {:?} with errors {:?} (first load: {:?} under {:?})", t2, printed, errs, c.text, c.plan)));
                            }
                        }
                        None => {
                            return Err(v("state-leak", $label, &pre2, format!("second, fault-free load of {:?} failed (first load: {:?} under {:?})", t2, c.text, c.plan)));
                        }
                    }
                }};
            }
            second!("Deb822::read_relaxed#2", |r: &mut SimReader| Deb822::read_relaxed(r).ok().map(|(d, e)| (d.to_string(), e)));
            second!("Control::read_relaxed#2", |r: &mut SimReader| Control::read_relaxed(r).ok().map(|(d, e)| (d.to_string(), e)));
            if want_errs.is_empty() {
                second!("Deb822::read#2", |r: &mut SimReader| Deb822::read(r).ok().map(|d| (d.to_string(), vec![])));
                second!("Control::read#2", |r: &mut SimReader| Control::read(r).ok().map(|d| (d.to_string(), vec![])));
            }
        }

        // accounting
        let outcome = if hard {
            "io-error"
        } else if exp_str.is_none() {
            "invalid-utf8"
        } else if ref_errs.is_empty() {
            "ok"
        } else {
            "parse-errors"
        };
        obs.count(&format!("reach.outcome_{outcome}"));
        obs.state(key_of(&["outcome", outcome, &pre]));
        let faulted = c.plan.cut.is_some() || !c.plan.steps.is_empty() || c.flip.is_some() || !c.faults.is_empty();
        if faulted && !c.text.is_empty() {
            let plan_s = serde_json::to_string(&c.plan).unwrap();
            let flip_s = format!("{:?}", c.flip);
            obs.nontrivial = Some(key_of(&[&c.text, &flip_s, &plan_s]));
        }
        obs.event(outcome);
        Ok(())
    }

    fn shrink(c: &Case) -> Vec<Case> {
        let mut out = Vec::new();
        if c.text.len() > (256 << 10) {
            // large documents: halve at line boundaries, nothing finer (each candidate costs seconds)
            let cut = |at: usize| c.text[..at].rfind('\n').map(|i| i + 1).unwrap_or(0);
            let mid = cut(c.text.len() / 2);
            let q3 = cut(c.text.len() / 4 * 3);
            for t in [c.text[..mid].to_string(), c.text[mid..].to_string(), c.text[..q3].to_string()] {
                if !t.is_empty() && t.len() < c.text.len() {
                    let mut n = Case { text: t, faults: vec![], flip: None, ..c.clone() };
                    if let Some(cutp) = &mut n.plan.cut {
                        cutp.at = cutp.at.min(n.text.len());
                    }
                    out.push(n);
                }
            }
            if !c.plan.steps.is_empty() || c.plan.cut.is_some() {
                out.push(Case { plan: ReadPlan::default(), ..c.clone() });
            }
            return out;
        }
        for p in shrink_read_plan(&c.plan) {
            out.push(Case { plan: p, ..c.clone() });
        }
        if c.flip.is_some() {
            out.push(Case { flip: None, ..c.clone() });
        }
        if c.on_disk {
            out.push(Case { on_disk: false, ..c.clone() });
        }
        if let Some(f) = &c.followup {
            out.push(Case { followup: None, ..c.clone() });
            for t in text::shrink_text(f).into_iter().take(40) {
                out.push(Case { followup: Some(t), ..c.clone() });
            }
        }
        for t in text::shrink_text(&c.text) {
            let mut n = Case { text: t, faults: vec![], ..c.clone() };
            let _ = &mut n;
            if let Some(cut) = &mut n.plan.cut {
                cut.at = cut.at.min(n.text.len());
            }
            if let Some((i, _)) = n.flip {
                if i >= n.text.len() {
                    n.flip = None;
                }
            }
            out.push(n);
        }
        if let Some(cut) = &c.plan.cut {
            for at in [0, cut.at / 2, cut.at.saturating_sub(1)] {
                if at < cut.at {
                    let mut n = c.clone();
                    n.plan.cut.as_mut().unwrap().at = at;
                    out.push(n);
                }
            }
        }
        out
    }

    fn crash_prestate(c: &Case, _label: &str) -> String {
        let data = bytes_of(c);
        prestate(c, c.plan.expected(&data))
    }
}
