//! C20 — typed lossy documents under the persist / restart / reload cycle across hash epochs:
//! value -> text -> (new process: new hasher keys) -> value -> text, plus field-wise agreement
//! with the lossless reader and rejection of structurally invalid variants.
use crate::core::driver::{key_of, Obs, Scenario, Tier, Violation};
use crate::core::hashseed::in_epoch;
use crate::core::probe;
use crate::core::rng::Rng;
use crate::gen::{text, typed};
use deb822_lossless::lossy;
use deb822_lossless::{FromDeb822Paragraph, ToDeb822Paragraph};
use serde::{Deserialize, Serialize};
use serde_json::{json, Value};
use std::str::FromStr;

pub struct C20;
const ID: &str = "C20";

pub const KINDS: &[&str] = &["control", "copyright", "apt-release", "apt-source", "apt-package", "removal", "dep3", "apt-sources", "buildinfo"];

#[derive(Clone, Debug, Serialize, Deserialize)]
pub struct Case {
    pub kind: String,
    pub text: String,
    /// "wellformed" or the name of the structural rule that was broken on purpose
    pub variant: String,
    pub epochs: [u64; 3],
}

fn v(clause: &str, op: &str, pre: &str, detail: String) -> Violation {
    Violation::new(ID, clause, op, pre, detail)
}

type Fields = Vec<(String, String)>;

fn pf<T: ToDeb822Paragraph<lossy::Paragraph>>(x: &T) -> Fields {
    let p: lossy::Paragraph = x.to_paragraph();
    p.iter().map(|(k, v)| (k.to_string(), v.to_string())).collect()
}

/// What one epoch of a cycle yields: the printed text, a comparable rendering of the value and
/// the (name, serialised value) pairs per paragraph.
#[derive(Clone, Debug)]
struct Snap {
    printed: Option<String>,
    paras: Vec<Fields>,
    dbg: String,
}

fn snap(kind: &str, text: &str) -> Result<Snap, String> {
    match kind {
        "control" => {
            let c = debian_control::lossy::Control::from_str(text)?;
            let mut paras = vec![pf(&c.source)];
            for b in &c.binaries {
                paras.push(pf(b));
            }
            Ok(Snap { printed: Some(c.to_string()), dbg: format!("{:?}", paras), paras })
        }
        "copyright" => {
            let c = debian_copyright::lossy::Copyright::from_str(text)?;
            let mut paras = vec![pf(&c.header)];
            for f in &c.files {
                paras.push(pf(f));
            }
            for l in &c.licenses {
                paras.push(pf(l));
            }
            Ok(Snap { printed: Some(c.to_string()), dbg: format!("{:?}", c), paras })
        }
        "apt-release" => {
            let p = lossy::Paragraph::from_str(text).map_err(|e| e.to_string())?;
            let r = debian_control::lossy::apt::Release::from_paragraph(&p)?;
            let out: lossy::Paragraph = r.to_paragraph();
            Ok(Snap { printed: Some(out.to_string()), dbg: format!("{:?}", r), paras: vec![pf(&r)] })
        }
        "apt-source" => {
            let r = debian_control::lossy::apt::Source::from_str(text)?;
            Ok(Snap { printed: Some(r.to_string()), dbg: format!("{:?}", r), paras: vec![pf(&r)] })
        }
        "apt-package" => {
            let r = debian_control::lossy::apt::Package::from_str(text)?;
            Ok(Snap { printed: Some(r.to_string()), dbg: format!("{:?}", r), paras: vec![pf(&r)] })
        }
        "removal" => {
            let r = debian_control::lossy::ftpmaster::Removal::from_str(text)?;
            let out: lossy::Paragraph = r.to_paragraph();
            Ok(Snap { printed: Some(out.to_string()), dbg: format!("{:?}", r), paras: vec![pf(&r)] })
        }
        "dep3" => {
            let r = dep3::lossy::PatchHeader::from_str(text)?;
            Ok(Snap { printed: Some(r.to_string()), dbg: format!("{:?}", r), paras: vec![pf(&r)] })
        }
        "apt-sources" => {
            let r = apt_sources::Repositories::from_str(text)?;
            let paras: Vec<Fields> = r.iter().map(pf).collect();
            // Repository derives PartialEq over a HashSet field: order-insensitive; render it sorted
            let dbg = format!("{:?}", r.iter().map(|x| { let mut f = pf(x); for e in f.iter_mut() { if e.0 == "Types" { let mut t: Vec<&str> = e.1.split_whitespace().collect(); t.sort(); e.1 = t.join(" "); } } f }).collect::<Vec<_>>());
            Ok(Snap { printed: Some(r.to_string()), dbg, paras })
        }
        "buildinfo" => {
            // parse-side clauses only: the type has no printer (DESIGN §2 C20)
            let r = debian_control::lossy::buildinfo::Buildinfo::from_str(text)?;
            let mut f = pf(&r);
            for e in f.iter_mut() {
                if e.0 == "Environment" {
                    let mut l: Vec<&str> = e.1.lines().collect();
                    l.sort();
                    e.1 = l.join("\n");
                }
            }
            Ok(Snap { printed: None, dbg: format!("{:?}", f), paras: vec![f] })
        }
        _ => Err("unknown kind".into()),
    }
}

const REL_FIELDS: &[&str] = &[
    "Build-Depends", "Build-Depends-Indep", "Build-Depends-Arch", "Build-Conflicts", "Build-Conflicts-Indep", "Build-Conflicts-Arch", "Depends", "Pre-Depends", "Recommends", "Suggests", "Enhances", "Breaks", "Conflicts",
    "Replaces", "Provides", "Built-Using", "Installed-Build-Depends",
];

fn mandatory_of(kind: &str) -> &'static [&'static str] {
    match kind {
        "apt-release" => &["Codename", "Components", "Architectures", "Description", "Origin", "Label", "Suite", "Version", "Date", "NotAutomatic", "ButAutomaticUpgrades", "Acquire-By-Hash"],
        "apt-source" => &["Directory", "Version", "Package", "Package-List"],
        "apt-package" => &["Package", "Version", "Architecture"],
        "removal" => &["Date", "Ftpmaster", "Reason"],
        "apt-sources" => &["Types", "URIs", "Suites", "Components", "Architectures"],
        "buildinfo" => &["Format", "Build-Architecture", "Source", "Architecture", "Version"],
        _ => &[],
    }
}

/// Does the text still have the shape its field table gives it (roles present, mandatory fields there)?
fn table_wellformed(kind: &str, text: &str) -> bool {
    let paras = match crate::model::segmenter::segment(text) {
        Some(s) => crate::model::segmenter::paragraphs(&s),
        None => return false,
    };
    if paras.is_empty() {
        return false;
    }
    let has = |p: &Vec<(String, String)>, f: &str| p.iter().any(|e| e.0 == f);
    match kind {
        "control" => paras.iter().filter(|p| has(p, "Source") && !has(p, "Package")).count() == 1 && paras.iter().all(|p| has(p, "Source") || has(p, "Package")),
        "copyright" => has(&paras[0], "Format") && paras[1..].iter().all(|p| (has(p, "Files") && has(p, "License") && has(p, "Copyright")) || (!has(p, "Files") && has(p, "License"))),
        "dep3" => true,
        _ => paras.iter().all(|p| mandatory_of(kind).iter().all(|m| has(p, m))),
    }
}

fn squash(s: &str) -> String {
    s.chars().filter(|c| !c.is_whitespace()).collect()
}

fn sorted_lines(s: &str) -> String {
    let mut l: Vec<&str> = s.split_whitespace().collect();
    l.sort();
    l.join(" ")
}

/// Break one structural rule of the document kind.
fn break_structure(rng: &mut Rng, kind: &str, text: &str) -> Option<(String, String)> {
    let paras: Vec<&str> = text.split("\n\n").collect();
    let mandatory: &[&str] = match kind {
        "control" => &["Source", "Package"],
        "copyright" => &["Format", "License", "Copyright"],
        "apt-release" => &["Codename", "Components", "Architectures", "Description", "Origin", "Label", "Suite", "Version", "Date", "NotAutomatic", "ButAutomaticUpgrades", "Acquire-By-Hash"],
        "apt-source" => &["Directory", "Version", "Package", "Package-List"],
        "apt-package" => &["Package", "Version", "Architecture"],
        "removal" => &["Date", "Ftpmaster", "Reason"],
        "apt-sources" => &["Types", "URIs", "Suites", "Components", "Architectures"],
        "buildinfo" => &["Format", "Build-Architecture", "Source", "Architecture", "Version"],
        _ => &[],
    };
    if rng.chance(1, 12) && matches!(kind, "control" | "copyright" | "apt-release" | "apt-source" | "apt-package" | "removal") {
        // no paragraph at all
        return Some(("no-paragraph".into(), rng.s(&["", "\n", "# only a comment\n", "\n\n# c\n\n"]).to_string()));
    }
    if rng.chance(1, 10) {
        // an optional field holding a value its type cannot represent: the typed value cannot carry what the
        // lossless reader shows for it, so there must be no typed value
        for (field, bogus) in [("Multi-Arch", "maybe"), ("Priority", "urgent"), ("Essential", "perhaps"), ("Installed-Size", "12 MB"), ("Enabled", "perhaps"), ("By-Hash", "sometimes"), ("Last-Update", "yesterday")] {
            let key = format!("{field}: ");
            if let Some(i) = text.find(&format!("\n{key}")).map(|i| i + 1).or(if text.starts_with(&key) { Some(0) } else { None }) {
                let end = text[i..].find('\n').map(|e| i + e).unwrap_or(text.len());
                let mut t = text.to_string();
                t.replace_range(i + key.len()..end, bogus);
                return Some((format!("unparsable-optional-{field}"), t));
            }
        }
    }
    match rng.below(4) {
        0 if kind == "control" => {
            // no source paragraph
            let rest: Vec<&str> = paras.iter().skip(1).cloned().collect();
            if rest.is_empty() {
                return Some(("no-source-paragraph".into(), "Package: x\n".into()));
            }
            Some(("no-source-paragraph".into(), rest.join("\n\n")))
        }
        1 if kind == "control" => Some(("two-source-paragraphs".into(), format!("{}\n\nSource: second\n", text.trim_end_matches('\n')) + "")),
        2 if kind == "control" || kind == "copyright" => {
            // a stray paragraph of varying length and content (error paths quote it)
            let name = rng.s(&["X-Neither", "Comment", "Note", "Disclaimer"]).to_string();
            let pad = "x".repeat(rng.below(70));
            let tail = rng.s(&["here", "Jérôme Dupont and the Debian packaging team", "日本語のテキスト", "ĳ😀é", "a b c"]);
            Some(("paragraph-of-neither-kind".into(), format!("{}\n\n{name}: {pad}{tail}\n", text.trim_end_matches('\n'))))
        }
        _ => {
            if mandatory.is_empty() {
                return None;
            }
            // drop one mandatory field (all its lines) from the first paragraph that has it
            let m = *rng.pick(mandatory);
            let mut out = String::new();
            let mut dropped = false;
            let mut skipping = false;
            for line in text.split_inclusive('\n') {
                if skipping && (line.starts_with(' ') || line.starts_with('\t')) {
                    continue;
                }
                skipping = false;
                if line.starts_with(&format!("{m}:")) {
                    // every occurrence: a duplicate would keep the document valid
                    dropped = true;
                    skipping = true;
                    continue;
                }
                out.push_str(line);
            }
            if !dropped {
                return None;
            }
            // the paragraph that lost the field must still exist, otherwise the result may be valid again
            // runs of non-empty lines that contain at least one field line
            let count = |t: &str| {
                let mut n = 0;
                let mut has_field = false;
                for l in t.split('\n') {
                    if l.is_empty() {
                        if has_field {
                            n += 1;
                        }
                        has_field = false;
                    } else if !l.starts_with('#') && !l.starts_with(' ') && !l.starts_with('\t') {
                        has_field = true;
                    }
                }
                if has_field {
                    n += 1;
                }
                n
            };
            if count(&out) != count(text) {
                return None;
            }
            if kind == "control" && m == "Source" {
                // a source paragraph without Source is a paragraph of neither kind (or a binary): still invalid
            }
            if kind == "copyright" && m == "Format" && !out.is_empty() {
                return Some(("not-machine-readable".into(), out));
            }
            Some((format!("missing-mandatory-{m}"), out))
        }
    }
}

impl Scenario for C20 {
    type Case = Case;
    const ID: &'static str = ID;
    const LEVEL: &'static str = "exploration";
    fn runs(tier: Tier) -> u64 {
        match tier {
            Tier::Quick => 120_000,
            Tier::Thorough => 2_500_000,
        }
    }
    fn rule() -> &'static str {
        "one case = one well-formed typed document generated from its field table (optional fields present with p=1/3, multi-line values, several paragraphs, shuffled order, comments) or a structurally invalid variant of it, run through the persist/restart/reload cycle: parse in hash epoch 1, print, parse the print in epoch 2 (fresh thread = fresh RandomState keys from the run's PRNG), print in epoch 3; values compared, prints compared byte for byte, typed fields compared with the lossless reader's view of the same text; non-trivial = the document carries a hash-ordered field (APT sources with two types, buildinfo Environment with >= 2 variables, Package-List extras) or has >= 2 paragraphs; distinct = FNV hash of (kind, text)"
    }
    fn state_measure() -> &'static str {
        "distinct (document kind, variant, number of paragraphs, outcome class) tuples"
    }
    fn assumptions() -> Vec<&'static str> {
        vec![
            "hasher keys are the only process-level nondeterminism between the two prints; each epoch is a fresh thread seeded through the interposed getrandom",
            "field-wise agreement with the lossless reader is compared modulo whitespace (typed fields re-serialise relations and lists canonically)",
            "Buildinfo has no printer: only its parse-side clauses are checked",
        ]
    }
    fn components() -> Value {
        json!({"real": ["debian_control::lossy::{Control, apt::{Release, Source, Package}, ftpmaster::Removal, buildinfo::Buildinfo}", "debian_copyright::lossy::Copyright", "dep3::lossy::PatchHeader", "apt_sources::Repositories", "deb822-derive generated from_paragraph/to_paragraph", "deb822_lossless lossy + lossless readers", "std HashMap/HashSet/RandomState"],
               "stub": ["getrandom (hasher seeds per epoch)", "the process boundary between print and re-parse (fresh thread per epoch)"]})
    }

    fn generate(rng: &mut Rng, _tier: Tier, k: u64) -> Case {
        let kind = KINDS[(k as usize) % KINDS.len()];
        let mut text = typed::instance(rng, kind);
        if matches!(kind, "apt-package" | "apt-source" | "apt-release" | "removal" | "dep3") && rng.chance(1, 10) {
            // a comment block of its own before or after the stanza is not a paragraph
            if rng.chance(1, 2) {
                text = format!("# a note\n# about this stanza\n\n{text}");
            } else {
                text = format!("{}\n\n# trailing note\n", text.trim_end_matches('\n'));
            }
        }
        if kind == "apt-source" && rng.chance(1, 4) {
            // commas with and without a following blank separate the same names
            if let Some(i) = text.find("Binary: ") {
                let end = text[i..].find('\n').map(|e| i + e).unwrap_or(text.len());
                let line = text[i..end].replace(", ", rng.s(&[",", " ,", ",  "]));
                text.replace_range(i..end, &line);
            }
        }
        if rng.chance(1, 6) {
            // a whitespace-only continuation line inside a multi-line field: odd, but every reader takes it
            let lines: Vec<&str> = text.split_inclusive('\n').collect();
            // between two non-blank continuation lines of one value, or (a seeded fraction) right after its last one
            let trailing = rng.chance(1, 4);
            let conts: Vec<usize> = (1..=lines.len())
                .filter(|i| {
                    let prev_ok = lines[*i - 1].starts_with(' ') && !lines[*i - 1].trim().is_empty();
                    let next_cont = *i < lines.len() && lines[*i].starts_with(' ') && !lines[*i].trim().is_empty();
                    prev_ok && lines[*i - 1].ends_with('\n') && (next_cont || trailing)
                })
                .collect();
            if !conts.is_empty() {
                let at = conts[rng.below(conts.len())];
                let mut l: Vec<String> = lines.iter().map(|x| x.to_string()).collect();
                l.insert(at, " \n".to_string());
                text = l.concat();
            }
        }
        if rng.chance(1, 8) {
            // a duplicated field with a different value: the first one counts (that is what the lossless reader shows)
            let lines: Vec<&str> = text.split_inclusive('\n').collect();
            let singles: Vec<usize> = (0..lines.len()).filter(|i| !lines[*i].starts_with(' ') && !lines[*i].starts_with('#') && lines[*i].contains(": ") && (*i + 1 >= lines.len() || !lines[*i + 1].starts_with(' '))).collect();
            if !singles.is_empty() {
                let at = singles[rng.below(singles.len())];
                let name = lines[at].split(':').next().unwrap_or("X").to_string();
                if ["Section", "Maintainer", "Homepage", "Testsuite", "Standards-Version", "Tag", "Suite", "Label", "Origin", "Reason", "Author"].contains(&name.as_str()) {
                    // appended at the end of that paragraph
                    let mut end = at + 1;
                    while end < lines.len() && lines[end] != "\n" {
                        end += 1;
                    }
                    let mut l: Vec<String> = lines.iter().map(|x| x.to_string()).collect();
                    l.insert(end, format!("{name}: second-occurrence\n"));
                    text = l.concat();
                }
            }
        }
        let epochs = [rng.next_u64(), rng.next_u64(), rng.next_u64()];
        if rng.chance(1, 5) {
            if let Some((variant, t)) = break_structure(rng, kind, &text) {
                return Case { kind: kind.into(), text: t, variant, epochs };
            }
        }
        Case { kind: kind.into(), text, variant: "wellformed".into(), epochs }
    }

    fn execute(c: &Case, obs: &mut Obs) -> Result<(), Violation> {
        let kind = c.kind.clone();
        obs.step();
        obs.count("fault.hash_reseed");
        obs.count(&format!("op.{kind}"));
        probe::at(Box::leak(format!("{kind}::from_str").into_boxed_str()));
        obs.prestate = c.variant.clone();
        let (k1, t1) = (kind.clone(), c.text.clone());
        let first = in_epoch(c.epochs[0], move || snap(&k1, &t1));
        if c.variant != "wellformed" {
            obs.count(&format!("reach.invalid_{}", c.variant.split('-').take(2).collect::<Vec<_>>().join("_")));
            obs.state(key_of(&[&kind, &c.variant, "err"]));
            return match first {
                Err(_) => Ok(()),
                Ok(s) => Err(v("invalid-accepted", &kind, &c.variant, format!("structurally invalid document {:?} was accepted as {}", c.text, s.dbg))),
            };
        }
        let first = match first {
            Ok(s) => s,
            Err(e) => {
                if std::env::var("DESKSET_DEBUG").is_ok() {
                    eprintln!("REJECTED {kind}: {e}");
                }
                // what the lossy relation reader accepts is C10's claim (negated architectures, free layout): counted, no
                // verdict. Any other rejection of a document generated from the field tables means the typed reader found
                // no value where the property says it carries one (roles by distinguishing fields, continuation lines ...)
                if e.starts_with("parsing field ") && REL_FIELDS.iter().any(|f| e.starts_with(&format!("parsing field {f}:"))) {
                    obs.count(&format!("reach.wellformed_rejected_{}", kind.replace('-', "_")));
                    return Ok(());
                }
                // only documents that still have the shape the field tables give them (a shrinking step may have
                // removed a mandatory field: rejecting that is right)
                if !table_wellformed(&kind, &c.text) {
                    obs.count("reach.rejected_not_table_wellformed");
                    return Ok(());
                }
                return Err(v("wellformed-rejected", &kind, "wellformed", format!("document {:?} generated from the field table is rejected: {}", c.text, e.trim())));
            }
        };
        let np = first.paras.len();
        // field by field against the lossless reader, paragraphs assigned to roles by their distinguishing fields
        probe::at("Deb822::from_str");
        if let Ok(d) = deb822_lossless::Deb822::from_str(&c.text) {
            let ll: Vec<deb822_lossless::Paragraph> = d.paragraphs().collect();
            // role order of the typed value: control = source then binaries; copyright = header, files, licences
            let order: Vec<usize> = match kind.as_str() {
                "control" => {
                    let mut o: Vec<usize> = (0..ll.len()).filter(|i| ll[*i].get("Package").is_none()).collect();
                    o.extend((0..ll.len()).filter(|i| ll[*i].get("Package").is_some()));
                    o
                }
                "copyright" => {
                    let mut o = vec![0usize];
                    o.extend((1..ll.len()).filter(|i| ll[*i].get("Files").is_some()));
                    o.extend((1..ll.len()).filter(|i| ll[*i].get("Files").is_none()));
                    o
                }
                _ => (0..ll.len()).collect(),
            };
            if order.len() != np {
                return Err(v("lossless-agreement", &kind, "paragraph-count", format!("typed value has {np} paragraphs, lossless reader shows {} for {:?}", order.len(), c.text)));
            }
            for (ti, li) in order.iter().enumerate() {
                for (name, val) in &first.paras[ti] {
                    let mut raw = ll[*li].get(name);
                    if kind == "dep3" && raw.is_none() {
                        // documented fallbacks
                        raw = match name.as_str() {
                            "Author" => ll[*li].get("From"),
                            "Description" => ll[*li].get("Subject"),
                            _ => None,
                        };
                    }
                    let raw = match raw {
                        Some(r) => r,
                        None => return Err(v("lossless-agreement", &kind, "field-invented", format!("typed value carries {name}={val:?} but the text {:?} has no such field", c.text))),
                    };
                    let rel_field = REL_FIELDS.contains(&name.as_str());
                    if rel_field {
                        // compare the dependency structure, read by the reference relation reader
                        if let (Some(a), Some(b)) = (crate::model::relations::parse_field(&raw, false), crate::model::relations::parse_field(val, false)) {
                            if a != b {
                                return Err(v("lossless-agreement", &kind, &format!("field-{name}"), format!("field {name}: text {:?} denotes {:?}, the typed value serialises {:?} which denotes {:?}", raw, a, val, b)));
                            }
                            continue;
                        }
                        obs.count("reach.relation_field_not_reference_readable");
                    }
                    // fields the typed layer stores as text must agree line by line (blank continuation lines aside: the
                    // lossy reader keeps them as empty lines, the lossless one does not report them); fields it re-serialises
                    // (lists, dates, sets) are compared modulo whitespace
                    let lines = |t: &str| t.split('\n').filter(|l| !l.trim().is_empty()).map(|l| l.to_string()).collect::<Vec<_>>();
                    let reserialised = ["Types", "Architectures", "Components", "Suites", "Environment", "Targets", "Languages", "Binary", "Date", "Valid-Until", "Package-List", "URIs", "Signed-By", "Files", "Files-Excluded", "Checksums-Sha1", "Checksums-Sha256", "Uploaders", "Tag"].contains(&name.as_str());
                    if !reserialised && lines(&raw) != lines(val) {
                        return Err(v("lossless-agreement", &kind, &format!("field-{name}"), format!("field {name}: typed value holds the lines {:?}, lossless reader shows {:?} (text {:?})", lines(val), lines(&raw), c.text)));
                    }
                    let same = squash(&raw) == squash(val) || (name == "Types" && sorted_lines(&raw) == sorted_lines(val)) || (name == "Environment" && sorted_lines(&raw) == sorted_lines(val));
                    if !same {
                        return Err(v("lossless-agreement", &kind, &format!("field-{name}"), format!("field {name}: typed value serialises {:?}, lossless reader shows {:?} (text {:?})", val, raw, c.text)));
                    }
                }
            }
        }
        // list-valued fields: the typed value holds the items the lossless view shows, not the raw line
        if let Some(seg) = crate::model::segmenter::segment(&c.text) {
            let raws = crate::model::segmenter::paragraphs(&seg);
            let (field, sep_comma) = match kind.as_str() {
                "copyright" => ("Files", false),
                "apt-source" => ("Binary", true),
                _ => ("", false),
            };
            if !field.is_empty() {
                let want: Vec<Vec<String>> = raws
                    .iter()
                    .filter_map(|p| p.iter().find(|e| e.0 == field))
                    .map(|e| e.1.split(|ch: char| ch.is_whitespace() || (sep_comma && ch == ',')).filter(|x| !x.is_empty()).map(|x| x.to_string()).collect())
                    .collect();
                // the items as the typed value prints them in its Debug form: `files: ["a", "b"]` / `binaries: Some(["a", "b"])`
                // (`files: ["` with the quote: the copyright value also has a `files: [FilesParagraph {..}]` member)
                let key = if field == "Files" { "files: [\"" } else { "binaries: Some([\"" };
                let mut got: Vec<Vec<String>> = Vec::new();
                let mut rest = first.dbg.as_str();
                while let Some(i) = rest.find(key) {
                    let tail = &rest[i + key.len() - 1..];
                    let end = tail.find(']').unwrap_or(tail.len());
                    let items: Vec<String> = tail[..end].split("\", \"").map(|x| x.trim_matches('"').to_string()).filter(|x| !x.is_empty()).collect();
                    got.push(items);
                    rest = &tail[end..];
                }
                let simple = want.iter().flatten().all(|x| !x.contains('"') && !x.contains('\\') && !x.contains(']') && x.is_ascii());
                if simple && !want.is_empty() && got != want {
                    return Err(v("lossless-agreement", &kind, &format!("items-{field}"), format!("field {field}: the typed value holds the items {:?}, the text lists {:?} ({:?})", got, want, c.text)));
                }
            }
        }
        let s1 = match &first.printed {
            Some(s) => s.clone(),
            None => {
                obs.state(key_of(&[&kind, "parse-only", &np.to_string()]));
                return Ok(());
            }
        };
        // restart: only the text survives; new hasher keys
        probe::at(Box::leak(format!("{kind}::from_str(printed)").into_boxed_str()));
        let (k2, t2) = (kind.clone(), s1.clone());
        let second = in_epoch(c.epochs[1], move || snap(&k2, &t2));
        let second = match second {
            Ok(s) => s,
            Err(e) => return Err(v("restart-error", &kind, "wellformed", format!("{:?} parsed, printed {:?}, and the print is rejected: {}", c.text, s1, e))),
        };
        if second.dbg != first.dbg {
            return Err(v("value-equality", &kind, "wellformed", format!("printed {:?}; first value {} second value {}", s1, first.dbg, second.dbg)));
        }
        let (k3, t3) = (kind.clone(), s1.clone());
        let third = in_epoch(c.epochs[2], move || snap(&k3, &t3));
        let s2 = third.ok().and_then(|s| s.printed).unwrap_or_default();
        if s2 != s1 {
            return Err(v("print-stability", &kind, "wellformed", format!("first print {:?} (hash seed {:#x}), print after re-parse {:?} (hash seed {:#x})", s1, c.epochs[0], s2, c.epochs[2])));
        }
        let hashy = (kind == "apt-sources" && c.text.contains("deb deb-src") || c.text.contains("deb-src deb")) || np >= 2;
        if hashy {
            obs.nontrivial = Some(key_of(&[&kind, &c.text]));
        }
        if kind == "apt-sources" && (c.text.contains("deb deb-src") || c.text.contains("deb-src deb")) {
            obs.count("reach.apt_sources_two_types");
        }
        obs.state(key_of(&[&kind, "ok", &np.to_string()]));
        obs.event(&s1);
        Ok(())
    }

    fn hash_sensitive() -> bool {
        true
    }

    fn shrink(c: &Case) -> Vec<Case> {
        let mut out = Vec::new();
        if c.variant != "wellformed" {
            return out; // shrinking could make the variant valid again
        }
        // drop whole fields (a field line plus its continuation lines), then shrink characters
        let lines: Vec<&str> = c.text.split_inclusive('\n').collect();
        let mut i = 0;
        while i < lines.len() {
            let mut j = i + 1;
            while j < lines.len() && (lines[j].starts_with(' ') || lines[j].starts_with('\t')) {
                j += 1;
            }
            let t: String = lines[..i].iter().chain(lines[j..].iter()).cloned().collect();
            out.push(Case { text: t, ..c.clone() });
            i = j;
        }
        if c.text.len() < 200 {
            for t in text::shrink_text(&c.text) {
                out.push(Case { text: t, ..c.clone() });
            }
        }
        out
    }
}
