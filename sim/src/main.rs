#![allow(dead_code)]
//! deskset: deterministic simulation with fault injection for deb822-lossless.
mod core;
mod gen;
mod model;
mod scn;

use crate::core::driver::{self, Scenario, Tier};

#[global_allocator]
static GLOBAL: core::alloc::Counting = core::alloc::Counting;

fn dispatch<S: Scenario>(cmd: &str, rest: &[String]) -> i32 {
    match cmd {
        "run" => {
            let tier = rest.get(1).and_then(|t| Tier::parse(t)).or_else(|| std::env::var("VERIF_TIER").ok().and_then(|t| Tier::parse(&t))).unwrap_or(Tier::Quick);
            driver::run_main::<S>(tier)
        }
        "worker" => driver::worker_main::<S>(rest),
        "exec" => driver::exec_main::<S>(rest),
        "replay" => driver::replay_main::<S>(&rest[1]),
        _ => {
            eprintln!("unknown command {cmd}");
            2
        }
    }
}

fn main() {
    let args: Vec<String> = std::env::args().skip(1).collect();
    if args.len() < 2 {
        eprintln!("usage: deskset run <ID> <quick|thorough> | replay <ID> <file>");
        std::process::exit(2);
    }
    let cmd = args[0].as_str();
    let rest = &args[1..];
    let code = std::panic::catch_unwind(|| run(cmd, rest)).unwrap_or_else(|_| {
        println!("HARNESS-ERROR the harness itself panicked (see stderr)");
        2
    });
    std::process::exit(code);
}

fn run(cmd: &str, rest: &[String]) -> i32 {
    match rest[0].as_str() {
        "C01" => dispatch::<scn::c01_load::C01>(cmd, rest),
        "C02" => dispatch::<scn::c02_total::C02>(cmd, rest),
        "C04" => dispatch::<scn::c04_c05_session::C04>(cmd, rest),
        "C05" => dispatch::<scn::c04_c05_session::C05>(cmd, rest),
        "C08" => dispatch::<scn::c08_lossy::C08>(cmd, rest),
        "C11" => dispatch::<scn::c11_relations::C11>(cmd, rest),
        "C15" => dispatch::<scn::c15_views::C15>(cmd, rest),
        "C18" => dispatch::<scn::c18_codecs::C18>(cmd, rest),
        "C19" => dispatch::<scn::c19_pgp::C19>(cmd, rest),
        "C20" => dispatch::<scn::c20_cycles::C20>(cmd, rest),
        other => {
            eprintln!("property {other} is not claimed by this engine");
            2
        }
    }
}
