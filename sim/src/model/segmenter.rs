//! Reference segmenter for well-formed deb822 text (DESIGN Appendix F). Independent of src/lex.rs.
#[derive(Clone, Debug, PartialEq)]
pub enum PSeg {
    Comment(String),
    Entry { name: String, text: String, value: String },
}

#[derive(Clone, Debug, PartialEq)]
pub enum Top {
    Comment(String),
    Blank(String),
    Para(Vec<PSeg>),
}

/// Lines with their terminator. A line ends at LF or at CR, each on its own (CR LF is a line end followed by an
/// empty line; the generators produce CR only as the terminator of the last line of a document).
fn lines_inclusive(text: &str) -> Vec<&str> {
    let mut out = Vec::new();
    let mut start = 0;
    for (i, c) in text.char_indices() {
        if c == '\n' || c == '\r' {
            out.push(&text[start..i + 1]);
            start = i + 1;
        }
    }
    if start < text.len() {
        out.push(&text[start..]);
    }
    out
}

fn strip_terminator(l: &str) -> &str {
    l.strip_suffix('\n').or_else(|| l.strip_suffix('\r')).unwrap_or(l)
}

fn decode_value(entry_text: &str, name: &str) -> String {
    // strip "name:" then per line strip leading spaces/tabs and the terminator
    // the colon may be separated from the name by blanks
    let colon = entry_text.find(':').unwrap_or(name.len());
    let rest = &entry_text[colon + 1..];
    let mut lines = Vec::new();
    for l in lines_inclusive(rest) {
        let l = strip_terminator(l);
        lines.push(l.trim_start_matches([' ', '\t']).to_string());
    }
    if lines.is_empty() {
        lines.push(String::new());
    }
    // "Field:\n value": nothing after the colon and the value on the following lines. The readers
    // report the value without that empty first line (a decision of the implementation that every
    // typed getter relies on); the reference follows it.
    if lines.len() > 1 && lines[0].is_empty() {
        lines.remove(0);
    }
    lines.join("\n")
}

/// Split text the model believes well-formed. None = not segmentable (clause skipped and counted).
pub fn segment(text: &str) -> Option<Vec<Top>> {
    let mut out: Vec<Top> = Vec::new();
    // current run of non-blank lines
    let mut run: Vec<PSeg> = Vec::new();
    let flush = |run: &mut Vec<PSeg>, out: &mut Vec<Top>| {
        if run.is_empty() {
            return;
        }
        if run.iter().any(|s| matches!(s, PSeg::Entry { .. })) {
            // leading comments of a run belong to the top level in the implementation's tree as well;
            // for text comparison they are kept as separate top-level comment segments
            let first_entry = run.iter().position(|s| matches!(s, PSeg::Entry { .. })).unwrap();
            for s in run.drain(..first_entry) {
                if let PSeg::Comment(c) = s {
                    out.push(Top::Comment(c));
                }
            }
            out.push(Top::Para(std::mem::take(run)));
        } else {
            for s in run.drain(..) {
                if let PSeg::Comment(c) = s {
                    out.push(Top::Comment(c));
                }
            }
        }
    };
    for line in lines_inclusive(text) {
        let body = strip_terminator(line);
        if body.is_empty() {
            flush(&mut run, &mut out);
            out.push(Top::Blank(line.to_string()));
        } else if body.starts_with('#') {
            run.push(PSeg::Comment(line.to_string()));
        } else if body.starts_with(' ') || body.starts_with('\t') {
            if body.trim_start_matches([' ', '\t']).is_empty() {
                return None; // whitespace-only line: outside the well-formed domain
            }
            match run.last_mut() {
                Some(PSeg::Entry { text, .. }) => text.push_str(line),
                _ => return None,
            }
        } else {
            let colon = body.find(':')?;
            let name = body[..colon].trim_end_matches([' ', '\t']);
            if name.is_empty() || name.starts_with('-') || !name.chars().all(|c| c.is_ascii_graphic()) {
                return None;
            }
            run.push(PSeg::Entry { name: name.to_string(), text: line.to_string(), value: String::new() });
        }
    }
    flush(&mut run, &mut out);
    for t in out.iter_mut() {
        if let Top::Para(segs) = t {
            for s in segs.iter_mut() {
                if let PSeg::Entry { name, text, value } = s {
                    *value = decode_value(text, name);
                }
            }
        }
    }
    Some(out)
}

/// The fields of each text paragraph, in order.
pub fn paragraphs(tops: &[Top]) -> Vec<Vec<(String, String)>> {
    tops.iter()
        .filter_map(|t| match t {
            Top::Para(segs) => Some(
                segs.iter()
                    .filter_map(|s| match s {
                        PSeg::Entry { name, value, .. } => Some((name.clone(), value.clone())),
                        _ => None,
                    })
                    .collect(),
            ),
            _ => None,
        })
        .collect()
}

/// Flat list of (paragraph ordinal or None, kind, text) for locality diffs.
#[derive(Clone, Debug, PartialEq)]
pub struct Flat {
    /// index of the maximal run of non-blank lines this line belongs to (blank lines: the run before)
    pub run: usize,
    pub para: Option<usize>,
    pub kind: char, // 'c' comment, 'b' blank, 'e' entry
    pub name: String,
    pub value: String,
    pub text: String,
}

pub fn flatten(tops: &[Top]) -> Vec<Flat> {
    let mut out = Vec::new();
    let mut pi = 0usize;
    let mut run = 0usize;
    let mut in_run = false;
    for t in tops {
        match t {
            Top::Comment(c) => {
                in_run = true;
                out.push(Flat { run, para: None, kind: 'c', name: String::new(), value: String::new(), text: c.clone() })
            }
            Top::Blank(b) => {
                if in_run {
                    run += 1;
                    in_run = false;
                }
                out.push(Flat { run, para: None, kind: 'b', name: String::new(), value: String::new(), text: b.clone() })
            }
            Top::Para(segs) => {
                in_run = true;
                for s in segs {
                    match s {
                        PSeg::Comment(c) => out.push(Flat { run, para: Some(pi), kind: 'c', name: String::new(), value: String::new(), text: c.clone() }),
                        PSeg::Entry { name, text, value } => out.push(Flat { run, para: Some(pi), kind: 'e', name: name.clone(), value: value.clone(), text: text.clone() }),
                    }
                }
                pi += 1;
            }
        }
    }
    out
}
