//! List model of a deb822 document with paragraph identity (DESIGN Appendix E).
use std::collections::BTreeMap;

#[derive(Clone, Debug, Default, PartialEq)]
pub struct Model {
    /// ids of the paragraphs in the document, in order
    pub doc: Vec<u32>,
    /// every paragraph ever seen in this epoch, attached or orphaned
    pub paras: BTreeMap<u32, Vec<(String, String)>>,
    pub next_id: u32,
}

impl Model {
    pub fn from_paragraphs(ps: Vec<Vec<(String, String)>>) -> Model {
        let mut m = Model::default();
        for p in ps {
            let id = m.fresh();
            m.paras.insert(id, p);
            m.doc.push(id);
        }
        m
    }
    fn fresh(&mut self) -> u32 {
        self.next_id += 1;
        self.next_id
    }
    pub fn attached(&self, id: u32) -> bool {
        self.doc.contains(&id)
    }
    pub fn fields(&self, id: u32) -> &Vec<(String, String)> {
        &self.paras[&id]
    }
    pub fn set(&mut self, id: u32, n: &str, v: &str) {
        let f = self.paras.get_mut(&id).unwrap();
        if let Some(e) = f.iter_mut().find(|e| e.0 == n) {
            e.1 = v.to_string();
        } else {
            f.push((n.to_string(), v.to_string()));
        }
    }
    pub fn insert(&mut self, id: u32, n: &str, v: &str) {
        self.paras.get_mut(&id).unwrap().push((n.to_string(), v.to_string()));
    }
    pub fn remove(&mut self, id: u32, n: &str) {
        self.paras.get_mut(&id).unwrap().retain(|e| e.0 != n);
    }
    pub fn rename(&mut self, id: u32, old: &str, new: &str) -> bool {
        let f = self.paras.get_mut(&id).unwrap();
        if let Some(e) = f.iter_mut().find(|e| e.0 == old) {
            e.0 = new.to_string();
            true
        } else {
            false
        }
    }
    pub fn add_paragraph(&mut self) -> u32 {
        let id = self.fresh();
        self.paras.insert(id, vec![]);
        self.doc.push(id);
        id
    }
    pub fn insert_paragraph(&mut self, i: usize) -> u32 {
        let id = self.fresh();
        self.paras.insert(id, vec![]);
        let at = i.min(self.doc.len());
        self.doc.insert(at, id);
        id
    }
    pub fn remove_paragraph(&mut self, i: usize) -> Option<u32> {
        if i < self.doc.len() {
            Some(self.doc.remove(i))
        } else {
            None
        }
    }
    /// What survives print + re-read: attached, non-empty paragraphs, fresh identities.
    pub fn restart(&self) -> Model {
        Model::from_paragraphs(self.doc.iter().map(|id| self.paras[id].clone()).filter(|p| !p.is_empty()).collect())
    }
    pub fn doc_fields(&self) -> Vec<Vec<(String, String)>> {
        self.doc.iter().map(|id| self.paras[id].clone()).collect()
    }
    pub fn nonempty_doc_fields(&self) -> Vec<Vec<(String, String)>> {
        self.doc_fields().into_iter().filter(|p| !p.is_empty()).collect()
    }
    /// Ordinal of paragraph `id` among the non-empty attached paragraphs (its position in the text).
    pub fn text_ordinal(&self, id: u32) -> Option<usize> {
        let mut k = 0;
        for d in &self.doc {
            if *d == id {
                return if self.paras[d].is_empty() { None } else { Some(k) };
            }
            if !self.paras[d].is_empty() {
                k += 1;
            }
        }
        None
    }
}
