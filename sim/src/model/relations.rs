//! List-of-lists model of a relationship field and a reference reader for WELL-FORMED fields
//! (written from Debian Policy 7.1, independent of debian-control's lexers and parsers).
use serde::{Deserialize, Serialize};

#[derive(Clone, Debug, PartialEq, Eq, Serialize, Deserialize)]
pub struct Rel {
    pub name: String,
    pub archqual: Option<String>,
    /// (operator text, version text)
    pub version: Option<(String, String)>,
    /// (negated, architecture)
    pub archs: Option<Vec<(bool, String)>>,
    /// restriction lists of (negated, profile)
    pub profiles: Vec<Vec<(bool, String)>>,
}

impl Rel {
    pub fn simple(name: &str) -> Rel {
        Rel { name: name.to_string(), archqual: None, version: None, archs: None, profiles: vec![] }
    }
    /// Canonical single-line text.
    pub fn text(&self) -> String {
        let mut s = self.name.clone();
        if let Some(a) = &self.archqual {
            s.push(':');
            s.push_str(a);
        }
        if let Some((op, v)) = &self.version {
            s.push_str(&format!(" ({op} {v})"));
        }
        if let Some(archs) = &self.archs {
            s.push_str(" [");
            s.push_str(&archs.iter().map(|(n, a)| format!("{}{}", if *n { "!" } else { "" }, a)).collect::<Vec<_>>().join(" "));
            s.push(']');
        }
        for p in &self.profiles {
            s.push_str(" <");
            s.push_str(&p.iter().map(|(n, a)| format!("{}{}", if *n { "!" } else { "" }, a)).collect::<Vec<_>>().join(" "));
            s.push('>');
        }
        s
    }
}

#[derive(Clone, Debug, PartialEq, Eq, Serialize, Deserialize)]
pub enum EntryM {
    Alts(Vec<Rel>),
    Substvar(String),
}

impl EntryM {
    pub fn text(&self) -> String {
        match self {
            EntryM::Alts(a) => a.iter().map(|r| r.text()).collect::<Vec<_>>().join(" | "),
            EntryM::Substvar(s) => s.clone(),
        }
    }
}

pub type FieldM = Vec<EntryM>;

pub fn field_text(f: &FieldM) -> String {
    f.iter().map(|e| e.text()).collect::<Vec<_>>().join(", ")
}

fn is_ws(c: char) -> bool {
    c == ' ' || c == '\t' || c == '\n' || c == '\r'
}

fn is_ident(c: char) -> bool {
    c.is_ascii_alphanumeric() || c == '-' || c == '.' || c == '+' || c == '~'
}

struct P<'a> {
    s: &'a [char],
    i: usize,
}

impl<'a> P<'a> {
    fn ws(&mut self) {
        while self.i < self.s.len() && is_ws(self.s[self.i]) {
            self.i += 1;
        }
    }
    fn peek(&self) -> Option<char> {
        self.s.get(self.i).cloned()
    }
    fn ident(&mut self) -> Option<String> {
        let st = self.i;
        while self.i < self.s.len() && is_ident(self.s[self.i]) {
            self.i += 1;
        }
        if self.i > st {
            Some(self.s[st..self.i].iter().collect())
        } else {
            None
        }
    }
    fn terms(&mut self, close: char) -> Option<Vec<(bool, String)>> {
        let mut out = vec![];
        loop {
            self.ws();
            match self.peek()? {
                c if c == close => {
                    self.i += 1;
                    return Some(out);
                }
                '!' => {
                    self.i += 1;
                    self.ws();
                    out.push((true, self.ident()?));
                }
                _ => out.push((false, self.ident()?)),
            }
        }
    }
}

/// Read one alternative. None = not well-formed by the reference grammar.
pub fn parse_rel(s: &str) -> Option<Rel> {
    let chars: Vec<char> = s.chars().collect();
    let mut p = P { s: &chars, i: 0 };
    p.ws();
    let name = p.ident()?;
    let mut r = Rel::simple(&name);
    p.ws();
    if p.peek() == Some(':') {
        p.i += 1;
        p.ws();
        r.archqual = Some(p.ident()?);
        p.ws();
    }
    if p.peek() == Some('(') {
        p.i += 1;
        p.ws();
        let st = p.i;
        while matches!(p.peek(), Some('<' | '>' | '=')) {
            p.i += 1;
        }
        let op: String = chars[st..p.i].iter().collect();
        if !["<<", "<=", "=", ">=", ">>"].contains(&op.as_str()) {
            return None;
        }
        p.ws();
        let st = p.i;
        while matches!(p.peek(), Some(c) if is_ident(c) || c == ':') {
            p.i += 1;
        }
        let ver: String = chars[st..p.i].iter().collect();
        if ver.is_empty() {
            return None;
        }
        p.ws();
        if p.peek() != Some(')') {
            return None;
        }
        p.i += 1;
        r.version = Some((op, ver));
        p.ws();
    }
    if p.peek() == Some('[') {
        p.i += 1;
        r.archs = Some(p.terms(']')?);
        p.ws();
    }
    while p.peek() == Some('<') {
        p.i += 1;
        r.profiles.push(p.terms('>')?);
        p.ws();
    }
    if p.i != chars.len() {
        return None;
    }
    Some(r)
}

/// Read a well-formed field: comma-separated entries (empty entries and a trailing comma allowed),
/// '|'-separated alternatives, `${...}` substitution variables when allowed.
pub fn parse_field(s: &str, allow_substvar: bool) -> Option<FieldM> {
    let mut out = vec![];
    for piece in s.split(',') {
        let t = piece.trim_matches(is_ws);
        if t.is_empty() {
            continue;
        }
        if t.starts_with("${") {
            if !allow_substvar || !t.ends_with('}') {
                return None;
            }
            out.push(EntryM::Substvar(t.to_string()));
            continue;
        }
        let mut alts = vec![];
        for a in t.split('|') {
            alts.push(parse_rel(a)?);
        }
        out.push(EntryM::Alts(alts));
    }
    Some(out)
}
