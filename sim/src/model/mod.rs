pub mod deb822;
pub mod segmenter;
