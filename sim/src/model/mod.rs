pub mod deb822;
pub mod relations;
pub mod segmenter;
