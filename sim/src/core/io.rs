//! Simulated byte sources and sinks behind std::io::{Read, Write}.
use serde::{Deserialize, Serialize};
use std::io;

#[derive(Clone, Debug, Serialize, Deserialize, PartialEq)]
#[serde(rename_all = "snake_case")]
pub enum ReadStep {
    /// deliver at most n bytes
    Chunk(usize),
    /// deliver as much as the caller's buffer takes
    Rest,
    /// transient: ErrorKind::Interrupted, must be invisible
    Eintr,
}

/// Where the source ends other than at the end of the stored bytes.
/// `kind` = "eof" (peer closed / torn file: Ok(0) from there on) or an error kind
/// ("other", "would_block", "unexpected_eof", "timed_out", "connection_reset": Err from there on).
#[derive(Clone, Debug, Serialize, Deserialize, PartialEq)]
pub struct Cut {
    pub at: usize,
    pub kind: String,
}

/// How a byte source behaves: per-call chunking / EINTR (call-indexed, must be invisible) and an
/// optional cut at a byte offset (independent of the consumer's buffer sizes, so the expected
/// result is a function of the plan alone).
#[derive(Clone, Debug, Default, Serialize, Deserialize, PartialEq)]
pub struct ReadPlan {
    pub steps: Vec<ReadStep>,
    pub cut: Option<Cut>,
}

impl ReadPlan {
    pub fn whole() -> ReadPlan {
        ReadPlan::default()
    }
    pub fn hard_error(&self) -> bool {
        matches!(&self.cut, Some(c) if c.kind != "eof")
    }
    /// The bytes a consumer that reads to the end receives.
    pub fn expected<'a>(&self, data: &'a [u8]) -> &'a [u8] {
        match &self.cut {
            Some(c) => &data[..c.at.min(data.len())],
            None => data,
        }
    }
}

#[derive(Clone, Debug, Default)]
pub struct IoFired {
    pub calls: u64,
    pub short_reads: u64,
    pub split_multibyte: u64,
    pub eintr: u64,
    pub hard_error: u64,
    pub early_eof: u64,
    pub delivered: usize,
    /// the consumer saw Ok(0) or a hard error, i.e. it read to the end
    pub reached_end: bool,
}

pub fn error_kind(name: &str) -> io::ErrorKind {
    match name {
        "would_block" => io::ErrorKind::WouldBlock,
        "unexpected_eof" => io::ErrorKind::UnexpectedEof,
        "timed_out" => io::ErrorKind::TimedOut,
        "connection_reset" => io::ErrorKind::ConnectionReset,
        "invalid_data" => io::ErrorKind::InvalidData,
        _ => io::ErrorKind::Other,
    }
}

pub struct SimReader<'a> {
    data: &'a [u8],
    limit: usize,
    pos: usize,
    plan: &'a ReadPlan,
    idx: usize,
    pub fired: IoFired,
}

impl<'a> SimReader<'a> {
    pub fn new(data: &'a [u8], plan: &'a ReadPlan) -> Self {
        let limit = match &plan.cut {
            Some(c) => c.at.min(data.len()),
            None => data.len(),
        };
        SimReader { data, limit, pos: 0, plan, idx: 0, fired: IoFired::default() }
    }
}

fn is_char_boundary(data: &[u8], i: usize) -> bool {
    i == 0 || i >= data.len() || (data[i] & 0xC0) != 0x80
}

impl<'a> io::Read for SimReader<'a> {
    fn read(&mut self, buf: &mut [u8]) -> io::Result<usize> {
        self.fired.calls += 1;
        if buf.is_empty() {
            return Ok(0);
        }
        let step = if self.idx < self.plan.steps.len() {
            let s = self.plan.steps[self.idx].clone();
            self.idx += 1;
            s
        } else {
            ReadStep::Rest
        };
        if let ReadStep::Eintr = step {
            self.fired.eintr += 1;
            return Err(io::Error::from(io::ErrorKind::Interrupted));
        }
        let remaining = self.limit - self.pos;
        if remaining == 0 {
            self.fired.reached_end = true;
            match &self.plan.cut {
                Some(c) if c.kind != "eof" => {
                    self.fired.hard_error += 1;
                    return Err(io::Error::new(error_kind(&c.kind), "simulated I/O failure"));
                }
                Some(_) => {
                    if self.limit < self.data.len() {
                        self.fired.early_eof += 1;
                    }
                    return Ok(0);
                }
                None => return Ok(0),
            }
        }
        let n = match step {
            ReadStep::Chunk(n) => n.max(1),
            _ => usize::MAX,
        };
        let n = n.min(remaining).min(buf.len());
        if n < remaining {
            self.fired.short_reads += 1;
            if !is_char_boundary(self.data, self.pos + n) {
                self.fired.split_multibyte += 1;
            }
        }
        buf[..n].copy_from_slice(&self.data[self.pos..self.pos + n]);
        self.pos += n;
        self.fired.delivered = self.pos;
        Ok(n)
    }
}

#[derive(Clone, Debug, Serialize, Deserialize, PartialEq)]
#[serde(rename_all = "snake_case")]
pub enum WriteStep {
    /// accept at most n bytes
    Chunk(usize),
    Rest,
    Eintr,
    /// hard error ("other", "storage_full", "broken_pipe")
    Hard(String),
    /// Ok(0): the sink accepts nothing any more (write_all must turn this into WriteZero)
    Zero,
}

#[derive(Clone, Debug, Default)]
pub struct WFired {
    pub calls: u64,
    pub short_writes: u64,
    pub eintr: u64,
    pub hard_error: u64,
    pub zero: u64,
    pub flushes: u64,
}

pub struct SimWriter<'a> {
    pub durable: Vec<u8>,
    plan: &'a [WriteStep],
    idx: usize,
    pub fired: WFired,
}

impl<'a> SimWriter<'a> {
    pub fn new(plan: &'a [WriteStep]) -> Self {
        SimWriter { durable: Vec::new(), plan, idx: 0, fired: WFired::default() }
    }
}

impl<'a> io::Write for SimWriter<'a> {
    fn write(&mut self, buf: &[u8]) -> io::Result<usize> {
        self.fired.calls += 1;
        if buf.is_empty() {
            return Ok(0);
        }
        let step = if self.idx < self.plan.len() {
            let s = self.plan[self.idx].clone();
            self.idx += 1;
            s
        } else {
            WriteStep::Rest
        };
        let n = match step {
            WriteStep::Eintr => {
                self.fired.eintr += 1;
                return Err(io::Error::from(io::ErrorKind::Interrupted));
            }
            WriteStep::Hard(k) => {
                self.fired.hard_error += 1;
                let kind = match k.as_str() {
                    "broken_pipe" => io::ErrorKind::BrokenPipe,
                    _ => io::ErrorKind::Other,
                };
                return Err(io::Error::new(kind, "simulated write failure"));
            }
            WriteStep::Zero => {
                self.fired.zero += 1;
                return Ok(0);
            }
            WriteStep::Chunk(n) => n.max(1),
            WriteStep::Rest => usize::MAX,
        };
        let n = n.min(buf.len());
        if n < buf.len() {
            self.fired.short_writes += 1;
        }
        self.durable.extend_from_slice(&buf[..n]);
        Ok(n)
    }
    fn flush(&mut self) -> io::Result<()> {
        self.fired.flushes += 1;
        Ok(())
    }
}

/// Draw a read plan. `faulty` adds a cut (early EOF or hard error) at a byte offset, biased
/// towards landing inside the data; chunking and EINTR are always possible.
pub fn gen_read_plan(rng: &mut super::rng::Rng, len: usize, faulty: bool) -> ReadPlan {
    let mut steps = Vec::new();
    let style = rng.below(6);
    if style != 0 {
        let max_steps = 4 + rng.below(60);
        let mut covered = 0usize;
        let mut eintrs = 0;
        while steps.len() < max_steps && covered < len + 2 {
            if rng.chance(1, 10) && eintrs < 4 {
                steps.push(ReadStep::Eintr);
                eintrs += 1;
                continue;
            }
            let n = match style {
                1 => 1,
                2 => 1 + rng.below(3),
                3 => 1 + rng.below(17),
                4 => *rng.pick(&[1usize, 2, 3, 7, 31, 32, 33, 64]),
                _ => 1 + rng.below(len.max(1)),
            };
            steps.push(ReadStep::Chunk(n));
            covered += n;
        }
    }
    let cut = if faulty {
        let at = rng.below(len + 1);
        let kind = match rng.below(3) {
            0 => "eof",
            _ => *rng.pick(&["other", "would_block", "unexpected_eof", "timed_out", "connection_reset"]),
        };
        Some(Cut { at, kind: kind.to_string() })
    } else {
        None
    };
    ReadPlan { steps, cut }
}

/// Shrink candidates for a plan: no cut-free variant (the cut may be the point), fewer steps, whole reads.
pub fn shrink_read_plan(p: &ReadPlan) -> Vec<ReadPlan> {
    let mut out = Vec::new();
    if !p.steps.is_empty() {
        out.push(ReadPlan { steps: vec![], cut: p.cut.clone() });
        out.push(ReadPlan { steps: p.steps[..p.steps.len() / 2].to_vec(), cut: p.cut.clone() });
        if p.steps.iter().any(|s| *s == ReadStep::Eintr) {
            out.push(ReadPlan { steps: p.steps.iter().filter(|s| **s != ReadStep::Eintr).cloned().collect(), cut: p.cut.clone() });
        }
        if p.steps.len() <= 12 {
            for i in 0..p.steps.len() {
                let mut s = p.steps.clone();
                s.remove(i);
                out.push(ReadPlan { steps: s, cut: p.cut.clone() });
            }
        }
    }
    if p.cut.is_some() {
        out.push(ReadPlan { steps: p.steps.clone(), cut: None });
    }
    out
}

/// How a byte sink behaves: per-call short writes / EINTR and an optional hard failure once `fail_at`
/// bytes have been accepted ("storage_full", "broken_pipe", "other", or "zero" = Ok(0) from there on).
#[derive(Clone, Debug, Default, Serialize, Deserialize, PartialEq)]
pub struct WritePlan {
    pub steps: Vec<WriteStep>,
    pub fail_at: Option<Cut>,
}

pub struct SimSink<'a> {
    pub durable: Vec<u8>,
    plan: &'a WritePlan,
    idx: usize,
    pub fired: WFired,
}

impl<'a> SimSink<'a> {
    pub fn new(plan: &'a WritePlan) -> Self {
        SimSink { durable: Vec::new(), plan, idx: 0, fired: WFired::default() }
    }
}

impl<'a> io::Write for SimSink<'a> {
    fn write(&mut self, buf: &[u8]) -> io::Result<usize> {
        self.fired.calls += 1;
        if buf.is_empty() {
            return Ok(0);
        }
        let step = if self.idx < self.plan.steps.len() {
            let s = self.plan.steps[self.idx].clone();
            self.idx += 1;
            s
        } else {
            WriteStep::Rest
        };
        if let WriteStep::Eintr = step {
            self.fired.eintr += 1;
            return Err(io::Error::from(io::ErrorKind::Interrupted));
        }
        let mut room = usize::MAX;
        if let Some(c) = &self.plan.fail_at {
            room = c.at.saturating_sub(self.durable.len());
            if room == 0 {
                if c.kind == "zero" {
                    self.fired.zero += 1;
                    return Ok(0);
                }
                self.fired.hard_error += 1;
                let kind = match c.kind.as_str() {
                    "broken_pipe" => io::ErrorKind::BrokenPipe,
                    _ => io::ErrorKind::Other,
                };
                return Err(io::Error::new(kind, "simulated write failure"));
            }
        }
        let n = match step {
            WriteStep::Chunk(n) => n.max(1),
            _ => usize::MAX,
        };
        let n = n.min(buf.len()).min(room);
        if n < buf.len() {
            self.fired.short_writes += 1;
        }
        self.durable.extend_from_slice(&buf[..n]);
        Ok(n)
    }
    fn flush(&mut self) -> io::Result<()> {
        self.fired.flushes += 1;
        Ok(())
    }
}

pub fn gen_write_plan(rng: &mut super::rng::Rng, len: usize, faulty: bool) -> WritePlan {
    let mut steps = Vec::new();
    if !rng.chance(1, 5) {
        let n = 2 + rng.below(30);
        let mut eintrs = 0;
        for _ in 0..n {
            if rng.chance(1, 8) && eintrs < 3 {
                steps.push(WriteStep::Eintr);
                eintrs += 1;
            } else {
                steps.push(WriteStep::Chunk(1 + rng.below(9)));
            }
        }
    }
    let fail_at = if faulty { Some(Cut { at: rng.below(len + 1), kind: rng.s(&["storage_full", "broken_pipe", "other", "zero"]).to_string() }) } else { None };
    WritePlan { steps, fail_at }
}
