//! Where is the run right now? A label the supervisor can read even after the process died.
use std::sync::atomic::{AtomicPtr, Ordering};

static PAGE: AtomicPtr<u8> = AtomicPtr::new(std::ptr::null_mut());
pub const PAGE_SIZE: usize = 4096;

/// Map `path` shared; subsequent `set_run` / `at` stores land in the file.
pub fn attach(path: &str) -> Result<(), String> {
    use std::os::unix::io::AsRawFd;
    let f = std::fs::OpenOptions::new()
        .read(true)
        .write(true)
        .create(true)
        .truncate(true)
        .open(path)
        .map_err(|e| format!("progress file {path}: {e}"))?;
    f.set_len(PAGE_SIZE as u64).map_err(|e| e.to_string())?;
    let p = unsafe {
        libc::mmap(
            std::ptr::null_mut(),
            PAGE_SIZE,
            libc::PROT_READ | libc::PROT_WRITE,
            libc::MAP_SHARED,
            f.as_raw_fd(),
            0,
        )
    };
    if p == libc::MAP_FAILED {
        return Err("mmap failed".into());
    }
    PAGE.store(p as *mut u8, Ordering::SeqCst);
    Ok(())
}

pub fn set_run(k: u64) {
    let p = PAGE.load(Ordering::Relaxed);
    if !p.is_null() {
        unsafe {
            std::ptr::copy_nonoverlapping(k.to_le_bytes().as_ptr(), p, 8);
            std::ptr::write_bytes(p.add(8), 0, 8);
            beat(p);
        }
    }
}

/// Heartbeat counter at offset 256: moves on every store, so an outside monitor can tell "same label
/// again" from "no progress at all".
#[inline]
unsafe fn beat(p: *mut u8) {
    let q = p.add(256) as *mut u64;
    q.write_unaligned(q.read_unaligned().wrapping_add(1));
}

/// The raw page (run index, label, heartbeat) for change detection by the supervisor.
pub fn read_raw(path: &str) -> Vec<u8> {
    let mut b = std::fs::read(path).unwrap_or_default();
    b.truncate(264);
    b
}

/// Record the label of the call about to be made (entry point, operation).
#[inline]
pub fn at(label: &str) {
    let p = PAGE.load(Ordering::Relaxed);
    if !p.is_null() {
        let n = label.len().min(200);
        unsafe {
            std::ptr::copy_nonoverlapping((n as u64).to_le_bytes().as_ptr(), p.add(8), 8);
            std::ptr::copy_nonoverlapping(label.as_ptr(), p.add(16), n);
            beat(p);
        }
    }
    LABEL.with(|l| {
        let mut l = l.borrow_mut();
        l.clear();
        l.push_str(label);
    });
}

thread_local! {
    static LABEL: std::cell::RefCell<String> = const { std::cell::RefCell::new(String::new()) };
}

pub fn current_label() -> String {
    LABEL.with(|l| l.borrow().clone())
}

/// Read (run index, label) back from a progress file.
pub fn read_back(path: &str) -> Option<(u64, String)> {
    let b = std::fs::read(path).ok()?;
    if b.len() < 16 {
        return None;
    }
    let k = u64::from_le_bytes(b[0..8].try_into().ok()?);
    let n = u64::from_le_bytes(b[8..16].try_into().ok()?) as usize;
    let n = n.min(200).min(b.len() - 16);
    Some((k, String::from_utf8_lossy(&b[16..16 + n]).to_string()))
}
