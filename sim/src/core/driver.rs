//! Supervisor, worker loop, shrinking, replay and evidence: shared by every scenario.
use super::rng::{fnv, fnv_mix, mix, Rng};
use super::{alloc, hashseed, probe};
use serde::de::DeserializeOwned;
use serde::{Deserialize, Serialize};
use serde_json::{json, Value};
use std::collections::{BTreeMap, HashSet};
use std::io::{BufRead, Read, Write};
use std::process::{Command, Stdio};
use std::time::{Duration, Instant};

pub fn root() -> String {
    std::env::var("DESKSET_ROOT").unwrap_or_else(|_| "/verif".to_string())
}
pub const DEFAULT_SEED: u64 = 0xDEB822;

#[derive(Clone, Copy, PartialEq, Eq, Debug)]
pub enum Tier {
    Quick,
    Thorough,
}
impl Tier {
    pub fn name(self) -> &'static str {
        match self {
            Tier::Quick => "quick",
            Tier::Thorough => "thorough",
        }
    }
    pub fn parse(s: &str) -> Option<Tier> {
        match s {
            "quick" => Some(Tier::Quick),
            "thorough" => Some(Tier::Thorough),
            _ => None,
        }
    }
}

#[derive(Clone, Debug, Serialize, Deserialize, PartialEq)]
pub struct Violation {
    pub signature: String,
    pub detail: String,
}

impl Violation {
    pub fn new(id: &str, clause: &str, op: &str, pre: &str, detail: impl Into<String>) -> Violation {
        Violation { signature: format!("{id}/{clause}/{op}/{pre}"), detail: detail.into() }
    }
}

/// Per-run observer: counters, event digest, state keys.
#[derive(Default)]
pub struct Obs {
    pub counters: BTreeMap<String, u64>,
    pub digest: u64,
    pub steps: u64,
    pub states: Vec<u64>,
    pub nontrivial: Option<u64>,
    /// pre-state class of the operation in flight (used in panic/abort signatures)
    pub prestate: String,
}

impl Obs {
    pub fn count(&mut self, key: &str) {
        *self.counters.entry(key.to_string()).or_insert(0) += 1;
    }
    pub fn add(&mut self, key: &str, n: u64) {
        if n > 0 {
            *self.counters.entry(key.to_string()).or_insert(0) += n;
        }
    }
    /// Fold an observable event into the run digest (determinism check). Never draws randomness.
    pub fn event(&mut self, s: &str) {
        if std::env::var_os("DESKSET_TRACE").is_some() {
            eprintln!("EVENT {:?}", s);
        }
        self.digest = fnv_mix(self.digest ^ 0x9E37, s.as_bytes());
    }
    pub fn step(&mut self) {
        self.steps += 1;
    }
    pub fn state(&mut self, key: u64) {
        self.states.push(key);
    }
    pub fn io(&mut self, f: &super::io::IoFired) {
        self.add("fault.short_read", f.short_reads);
        self.add("fault.split_multibyte", f.split_multibyte);
        self.add("fault.eintr", f.eintr);
        self.add("fault.hard_error", f.hard_error);
        self.add("fault.early_eof", f.early_eof);
        self.add("io.read_calls", f.calls);
    }
}

#[derive(Clone, Debug, Serialize, Deserialize)]
pub struct Envelope<C> {
    pub hash_seed: u64,
    pub case: C,
}

pub trait Scenario: 'static {
    type Case: Serialize + DeserializeOwned + Clone + Send + 'static;
    const ID: &'static str;
    const LEVEL: &'static str;
    fn runs(tier: Tier) -> u64;
    fn rule() -> &'static str;
    fn state_measure() -> &'static str;
    fn assumptions() -> Vec<&'static str>;
    fn components() -> Value;
    fn generate(rng: &mut Rng, tier: Tier, k: u64) -> Self::Case;
    fn execute(case: &Self::Case, obs: &mut Obs) -> Result<(), Violation>;
    /// Strictly smaller / simpler variants of a case, most aggressive first.
    fn shrink(case: &Self::Case) -> Vec<Self::Case>;
    /// Pre-state class used when the process died inside `label` (no Obs survives).
    fn crash_prestate(_case: &Self::Case, _label: &str) -> String {
        "-".into()
    }
    /// Stack of the thread a run executes on. Small for C02 so that recursion proportional to the
    /// input shows up at the input sizes the fault injector produces.
    fn stack_bytes() -> usize {
        8 << 20
    }
    /// Extra watchdog allowance for a case that is legitimately slow (megabyte documents): added to
    /// every per-run deadline, so that a loaded machine does not turn a big input into a "hang".
    fn extra_time(_case: &Self::Case) -> Duration {
        Duration::from_secs(0)
    }
    /// Outcomes of this scenario can depend on HashMap/HashSet iteration order. Such a run is executed
    /// twice: a throw-away priming execution first (so that every lazily initialised global the case
    /// touches exists before the judged execution and cannot shift its RandomState key counter), then
    /// the judged one. That makes the judged execution a function of (hash seed, case) alone, whatever
    /// the process did before - in the worker and in a replay process alike.
    fn hash_sensitive() -> bool {
        false
    }
    /// True when the thorough tier enumerates its (bounded) space completely.
    fn exhaustive(_tier: Tier) -> bool {
        false
    }
}

// ---------------------------------------------------------------- panic capture

thread_local! {
    static LAST_PANIC: std::cell::RefCell<Option<(String, String)>> = const { std::cell::RefCell::new(None) };
}

static LAST_PANIC_ANY: std::sync::Mutex<Option<(String, String)>> = std::sync::Mutex::new(None);

pub fn install_panic_hook() {
    std::panic::set_hook(Box::new(|info| {
        let loc = info.location().map(|l| format!("{}:{}", l.file(), l.line())).unwrap_or_else(|| "?".into());
        let msg = if let Some(s) = info.payload().downcast_ref::<&str>() {
            s.to_string()
        } else if let Some(s) = info.payload().downcast_ref::<String>() {
            s.clone()
        } else {
            "<non-string panic>".to_string()
        };
        // helper threads of a run (hash epochs) panic on their own thread: keep a process-wide copy as well
        if let Ok(mut g) = LAST_PANIC_ANY.lock() {
            *g = Some((loc.clone(), msg.clone()));
        }
        LAST_PANIC.with(|p| *p.borrow_mut() = Some((loc, msg)));
    }));
}

fn short_file(loc: &str) -> String {
    // "/repo/debian-control/src/lossless/relations.rs:123" -> "debian-control/src/lossless/relations.rs"
    let file = loc.rsplit_once(':').map(|x| x.0).unwrap_or(loc);
    let mut file = file.strip_prefix("/repo/").unwrap_or(file);
    // a scratch copy of the repository (experiment mode): cut at the crate directory
    if file.starts_with('/') && !file.contains("/registry/src/") && !file.contains("/library/") {
        for marker in ["/debian-control/", "/debian-copyright/", "/dep3/", "/apt-sources/", "/deb822-derive/", "/src/"] {
            if let Some(i) = file.find(marker) {
                file = &file[i + 1..];
                break;
            }
        }
    }
    if let Some(i) = file.find("/registry/src/") {
        let rest = &file[i + 14..];
        return rest.split_once('/').map(|x| x.1.to_string()).unwrap_or(rest.to_string());
    }
    if let Some(i) = file.find("/library/") {
        return file[i + 1..].to_string();
    }
    file.to_string()
}

/// First words of a panic message, digits removed: stable across line shifts, distinguishes causes.
fn slug(msg: &str) -> String {
    let cleaned: String = msg.chars().map(|c| if c.is_ascii_alphabetic() { c.to_ascii_lowercase() } else { ' ' }).collect();
    cleaned.split_whitespace().take(2).collect::<Vec<_>>().join("-")
}

pub struct Outcome {
    pub violation: Option<Violation>,
    pub obs: Obs,
}

/// Execute one case on the current thread (hash seed already set), catching panics.
fn execute_here<S: Scenario>(case: &S::Case) -> Outcome {
    let mut obs = Obs::default();
    LAST_PANIC.with(|p| *p.borrow_mut() = None);
    if let Ok(mut g) = LAST_PANIC_ANY.lock() {
        *g = None;
    }
    probe::at("-");
    let r = std::panic::catch_unwind(std::panic::AssertUnwindSafe(|| S::execute(case, &mut obs)));
    let violation = match r {
        Ok(Ok(())) => None,
        Ok(Err(v)) => Some(v),
        Err(_) => {
            let (loc, msg) = LAST_PANIC.with(|p| p.borrow_mut().take()).or_else(|| LAST_PANIC_ANY.lock().ok().and_then(|mut g| g.take())).unwrap_or(("?".into(), "?".into()));
            let label = probe::current_label();
            let pre = if obs.prestate.is_empty() { "-".to_string() } else { obs.prestate.clone() };
            Some(Violation {
                signature: format!("{}/panic/{}/{}@{}#{}", S::ID, label, pre, short_file(&loc), slug(&msg)),
                detail: format!("panic at {loc}: {msg}"),
            })
        }
    };
    // details quote inputs; keep them short enough for a pipe buffer and for a human (the replay file has the case)
    let violation = violation.map(|mut v| {
        if v.detail.len() > 6000 {
            let mut cut = 6000;
            while !v.detail.is_char_boundary(cut) {
                cut -= 1;
            }
            v.detail = format!("{} [... {} more bytes, see the replay file]", &v.detail[..cut], v.detail.len() - cut);
        }
        v
    });
    if let Some(v) = &violation {
        obs.event(&v.signature);
    }
    Outcome { violation, obs }
}

pub enum ThreadResult {
    Done(Outcome),
    Hang,
}

/// Execute one case on a fresh thread whose hasher keys come from `hash_seed`.
pub fn execute_in_thread<S: Scenario>(env: &Envelope<S::Case>, timeout: Duration) -> ThreadResult {
    let (tx, rx) = std::sync::mpsc::channel();
    let case = env.case.clone();
    let hs = env.hash_seed;
    let h = std::thread::Builder::new()
        .stack_size(S::stack_bytes())
        .spawn(move || {
            if S::hash_sensitive() {
                // One priming execution on another thread (initialises whatever lazily initialised
                // global this case touches), then the judged one on a fresh thread.
                {
                    let case1 = case.clone();
                    if let Ok(h) = std::thread::Builder::new().stack_size(S::stack_bytes()).spawn(move || {
                        hashseed::set_thread_hash_seed(hs ^ 0x5052_494d);
                        let _ = execute_here::<S>(&case1);
                    }) {
                        let _ = h.join();
                    }
                }
                let case2 = case.clone();
                let inner = std::thread::Builder::new().stack_size(S::stack_bytes()).spawn(move || {
                    hashseed::set_thread_hash_seed(hs);
                    execute_here::<S>(&case2)
                });
                if let Ok(h) = inner {
                    if let Ok(out) = h.join() {
                        let _ = tx.send(out);
                    }
                }
                return;
            }
            hashseed::set_thread_hash_seed(hs);
            let out = execute_here::<S>(&case);
            let _ = tx.send(out);
        })
        .expect("spawn run thread");
    match rx.recv_timeout(timeout) {
        Ok(o) => {
            let _ = h.join();
            ThreadResult::Done(o)
        }
        Err(_) => ThreadResult::Hang,
    }
}

/// Process-global lazy state (lazy_regex in debversion, regex caches, idna tables ...) is
/// initialised by whichever run touches it first, and initialising it draws RandomState keys in
/// that run's thread. Warm it up before any real run so that a run's hash order does not depend
/// on which runs happened to precede it in the same process.
fn warm_up<S: Scenario>(round_deadline: Duration) {
    // regex-automata keeps its per-regex match caches in a pool sharded by (regex thread id % 8); a
    // thread that finds its shard empty creates a cache, and creating one builds a HashMap, i.e. draws
    // RandomState keys in that thread. Running the warm-up on nine consecutive threads leaves a cache
    // for every regex it touches in every shard, so later run threads create none, whatever their id.
    for round in 0..9u64 {
        let (tx, rx) = std::sync::mpsc::channel::<()>();
        let h = std::thread::Builder::new().stack_size(8 << 20).spawn(move || {
            let _tx = tx; // dropped when the round ends, however it ends
            hashseed::set_thread_hash_seed(round);
            let _ = std::panic::catch_unwind(|| {
                use std::str::FromStr;
                let _ = debversion::Version::from_str("1:2.0~rc1-1+b1");
                let _ = url::Url::parse("https://example.com/a%20b?x=y#z");
                let _ = chrono::DateTime::parse_from_rfc2822("Sat, 14 Dec 2024 10:15:30 +0000");
                let _ = chrono::NaiveDate::parse_from_str("2024-12-14", "%Y-%m-%d");
                let _ = debian_control::vcs::ParsedVcs::from_str("https://example.com/x -b main [sub]");
                let _ = debian_control::lossy::Relations::from_str("a (>= 1:1.0) [amd64] <!nocheck>, b | c");
                let _ = debian_control::lossless::relations::Relations::from_str("a (>= 1:1.0) [amd64] <!nocheck>, b | c").map(|r| r.to_string());
            });
            for i in 0..40u64 {
                let env = make_envelope::<S>(0x5741_524d, Tier::Quick, 1000 + i);
                let _ = execute_here::<S>(&env.case);
            }
        });
        if let Ok(h) = h {
            // a warm-up case may hit the very hang the runs are there to find: never wait for it
            // without a deadline. The stuck thread is abandoned (it dies with the process), the
            // rest of the warm-up is skipped, and the real runs report the hang under their watchdog.
            match rx.recv_timeout(round_deadline) {
                Err(std::sync::mpsc::RecvTimeoutError::Timeout) => {
                    WARMUP_STUCK.store(true, std::sync::atomic::Ordering::SeqCst);
                    return;
                }
                _ => {
                    let _ = h.join();
                }
            }
        }
    }
}

/// set when a warm-up round did not finish within its deadline (a library hang on a warm-up case)
pub static WARMUP_STUCK: std::sync::atomic::AtomicBool = std::sync::atomic::AtomicBool::new(false);

fn make_envelope<S: Scenario>(seed: u64, tier: Tier, k: u64) -> Envelope<S::Case> {
    let mut rng = Rng::new(mix(seed, S::ID, k));
    let hash_seed = rng.next_u64();
    let case = S::generate(&mut rng, tier, k);
    Envelope { hash_seed, case }
}

// ---------------------------------------------------------------- isolated execution (crash classes)

#[derive(Debug)]
pub struct IsoResult {
    pub signature: Option<String>,
    pub detail: String,
}

fn self_exe() -> std::path::PathBuf {
    std::env::current_exe().expect("current_exe")
}

pub fn scratch_dir() -> String {
    // children (workers, isolated executions) share the directory of the supervising process, which removes it
    if let Ok(d) = std::env::var("DESKSET_SCRATCH") {
        let _ = std::fs::create_dir_all(&d);
        return d;
    }
    let d = format!("{}/target/deskset-tmp/{}", root(), std::process::id());
    std::env::set_var("DESKSET_SCRATCH", &d);
    let _ = std::fs::create_dir_all(&d);
    d
}

/// Run one envelope in a child process; classify panics, aborts, allocation run-aways and hangs.
pub fn exec_isolated<S: Scenario>(env: &Envelope<S::Case>, timeout: Duration) -> IsoResult {
    let dir = scratch_dir();
    let pfile = format!("{dir}/iso-{}-{:?}.progress", std::process::id(), std::thread::current().id());
    let mut child = Command::new(self_exe())
        .args(["exec", S::ID, &pfile])
        .stdin(Stdio::piped())
        .stdout(Stdio::piped())
        .stderr(Stdio::piped())
        .spawn()
        .expect("spawn exec child");
    // feed and drain the pipes on their own threads: neither a large envelope nor a chatty child may block
    let input = serde_json::to_string(env).unwrap();
    let mut stdin = child.stdin.take().unwrap();
    let feeder = std::thread::spawn(move || {
        let _ = stdin.write_all(input.as_bytes());
    });
    let mut so = child.stdout.take().unwrap();
    let mut se = child.stderr.take().unwrap();
    let out_t = std::thread::spawn(move || {
        let mut b = Vec::new();
        let _ = so.read_to_end(&mut b);
        b
    });
    let err_t = std::thread::spawn(move || {
        let mut b = Vec::new();
        let _ = se.read_to_end(&mut b);
        b
    });
    let spawned = Instant::now();
    let mut start: Option<Instant> = None;
    let mut hung = false;
    loop {
        match child.try_wait() {
            Ok(Some(_)) => break,
            Ok(None) => {
                if start.is_none() {
                    // the child's warm-up (bounded on its side) does not count against the case
                    let raw = probe::read_raw(&pfile);
                    let warmed = raw.len() >= 264 && raw[0..8] == [0u8; 8] && raw[256..264] != [0u8; 8];
                    if warmed || spawned.elapsed() > Duration::from_secs(30) {
                        start = Some(Instant::now());
                    }
                }
                if start.map(|s| s.elapsed() > timeout).unwrap_or(false) {
                    hung = true;
                    let _ = child.kill();
                    break;
                }
                std::thread::sleep(Duration::from_millis(2));
            }
            Err(_) => break,
        }
    }
    let status = child.wait().expect("wait child");
    let _ = feeder.join();
    let stdout = String::from_utf8_lossy(&out_t.join().unwrap_or_default()).to_string();
    let stderr = String::from_utf8_lossy(&err_t.join().unwrap_or_default()).to_string();
    struct Out {
        status: std::process::ExitStatus,
    }
    let out = Out { status };
    let label = probe::read_back(&pfile).map(|x| x.1).unwrap_or_else(|| "-".into());
    let _ = std::fs::remove_file(&pfile);
    if !hung && out.status.success() {
        if let Some(line) = stdout.lines().last() {
            if let Ok(v) = serde_json::from_str::<Value>(line) {
                return IsoResult {
                    signature: v.get("signature").and_then(|s| s.as_str()).map(|s| s.to_string()),
                    detail: v.get("detail").and_then(|s| s.as_str()).unwrap_or("").to_string(),
                };
            }
        }
        return IsoResult { signature: Some(format!("{}/harness/exec-output/-", S::ID)), detail: stdout };
    }
    let class = if hung || out.status.code() == Some(3) {
        "hang"
    } else if stderr.contains(alloc::MARKER.trim()) {
        "budget"
    } else if stderr.contains("overflowed its stack") {
        "stack"
    } else {
        "abort"
    };
    IsoResult {
        signature: Some(format!("{}/{}/{}/{}", S::ID, class, label, S::crash_prestate(&env.case, &label))),
        detail: format!("process died ({class}) inside `{label}`; status {:?}; stderr tail: {}", out.status, tail(&stderr, 300)),
    }
}

fn tail(s: &str, n: usize) -> String {
    let c: Vec<char> = s.chars().collect();
    c[c.len().saturating_sub(n)..].iter().collect()
}

fn is_crash_class(sig: &str) -> bool {
    let mut it = sig.split('/');
    it.next();
    matches!(it.next(), Some("hang" | "budget" | "stack" | "abort"))
}

// ---------------------------------------------------------------- shrinking

fn minimise<S: Scenario>(env: Envelope<S::Case>, sig: &str, isolated: bool) -> (Envelope<S::Case>, String, u64) {
    let mut cur = env;
    let mut detail = String::new();
    let mut execs = 0u64;
    let budget = if isolated { 40 } else { 20_000 };
    let try_one = |e: &Envelope<S::Case>| -> Option<(String, String)> {
        if isolated {
            let r = exec_isolated::<S>(e, Duration::from_secs(3) + S::extra_time(&e.case));
            r.signature.map(|s| (s, r.detail))
        } else {
            match execute_in_thread::<S>(e, Duration::from_secs(20) + S::extra_time(&e.case)) {
                ThreadResult::Done(o) => o.violation.map(|v| (v.signature, v.detail)),
                ThreadResult::Hang => None,
            }
        }
    };
    // a wall-clock bound as well: candidates of slow cases (large documents) cost seconds each
    let started = Instant::now();
    'outer: loop {
        if execs > budget || started.elapsed() > Duration::from_secs(240) {
            break;
        }
        let cur_json = serde_json::to_string(&cur.case).unwrap_or_default();
        for cand in S::shrink(&cur.case) {
            // a candidate identical to the current case is no progress (and would loop)
            if serde_json::to_string(&cand).map(|j| j == cur_json).unwrap_or(false) {
                continue;
            }
            execs += 1;
            let e = Envelope { hash_seed: cur.hash_seed, case: cand };
            if let Some((s, d)) = try_one(&e) {
                if s == sig {
                    cur = e;
                    detail = d;
                    continue 'outer;
                }
            }
            if execs > budget || started.elapsed() > Duration::from_secs(240) {
                break 'outer;
            }
        }
        break;
    }
    (cur, detail, execs)
}

// ---------------------------------------------------------------- worker

#[derive(Serialize, Deserialize, Default)]
struct WorkerDone {
    runs: u64,
    steps: u64,
    counters: BTreeMap<String, u64>,
    sample_digests: Vec<(u64, u64)>,
    samples: Vec<Value>,
    sig_counts: BTreeMap<String, u64>,
}

#[derive(Serialize, Deserialize)]
struct FoundViolation {
    k: u64,
    signature: String,
    detail: String,
    envelope: Value,
    original_envelope: Value,
    shrink_execs: u64,
}

const DIGEST_SAMPLE_MOD: u64 = 41;

pub fn worker_main<S: Scenario>(args: &[String]) -> i32 {
    // worker <ID> <tier> <seed> <start> <end> <stride> <dir> <widx> <digest_only>
    let tier = Tier::parse(&args[1]).unwrap();
    let seed: u64 = args[2].parse().unwrap();
    let start: u64 = args[3].parse().unwrap();
    let end: u64 = args[4].parse().unwrap();
    let stride: u64 = args[5].parse().unwrap();
    let dir = &args[6];
    let widx: u64 = args[7].parse().unwrap();
    let digest_only = args[8] == "1";
    install_panic_hook();
    if let Err(e) = probe::attach(&format!("{dir}/w{widx}.progress")) {
        eprintln!("HARNESS-ERROR {e}");
        return 2;
    }
    warm_up::<S>(Duration::from_secs(20));
    let stdout = std::io::stdout();
    let mut done = WorkerDone::default();
    let mut states: HashSet<u64> = HashSet::new();
    let mut nontrivial: HashSet<u64> = HashSet::new();
    let mut seen_sigs: HashSet<String> = HashSet::new();
    let mut k = start;
    while k < end {
        if digest_only && k % DIGEST_SAMPLE_MOD != 0 {
            k += stride;
            continue;
        }
        probe::set_run(k);
        let env = make_envelope::<S>(seed, tier, k);
        match execute_in_thread::<S>(&env, Duration::from_secs(15) + S::extra_time(&env.case)) {
            ThreadResult::Hang => {
                let mut o = stdout.lock();
                let _ = writeln!(o, "{}", json!({"type":"hang","k":k}));
                let _ = o.flush();
                std::process::exit(3);
            }
            ThreadResult::Done(out) => {
                done.runs += 1;
                done.steps += out.obs.steps;
                for (c, n) in &out.obs.counters {
                    *done.counters.entry(c.clone()).or_insert(0) += n;
                }
                if k % DIGEST_SAMPLE_MOD == 0 {
                    done.sample_digests.push((k, out.obs.digest));
                }
                if !digest_only {
                    for s in &out.obs.states {
                        states.insert(*s);
                    }
                    if let Some(n) = out.obs.nontrivial {
                        if nontrivial.insert(n) && done.samples.len() < 3 && widx == 0 {
                            done.samples.push(json!({"run": k, "hash_seed": env.hash_seed, "case": shorten(serde_json::to_value(&env.case).unwrap())}));
                        }
                    }
                    if let Some(v) = out.violation {
                        *done.sig_counts.entry(v.signature.clone()).or_insert(0) += 1;
                        if seen_sigs.insert(v.signature.clone()) {
                            let original = serde_json::to_value(&env).unwrap();
                            let (small, d2, execs) = minimise::<S>(env.clone(), &v.signature, false);
                            let fv = FoundViolation {
                                k,
                                signature: v.signature.clone(),
                                detail: if d2.is_empty() { v.detail.clone() } else { d2 },
                                envelope: serde_json::to_value(&small).unwrap(),
                                original_envelope: original,
                                shrink_execs: execs,
                            };
                            let mut o = stdout.lock();
                            let _ = writeln!(o, "{}", json!({"type":"violation","v":fv}));
                            let _ = o.flush();
                        }
                    }
                }
            }
        }
        k += stride;
    }
    if !digest_only {
        write_set(&format!("{dir}/w{widx}.{start}.states"), &states);
        write_set(&format!("{dir}/w{widx}.{start}.nontrivial"), &nontrivial);
    }
    let mut o = stdout.lock();
    let _ = writeln!(o, "{}", json!({"type":"done","d":done}));
    let _ = o.flush();
    0
}

/// Evidence samples are for reading: long strings are cut (the run index and seed regenerate the case).
fn shorten(v: Value) -> Value {
    match v {
        Value::String(s) if s.len() > 400 => {
            let mut cut = 400;
            while !s.is_char_boundary(cut) {
                cut -= 1;
            }
            Value::String(format!("{}[... {} bytes in all]", &s[..cut], s.len()))
        }
        Value::Array(a) => Value::Array(a.into_iter().take(40).map(shorten).collect()),
        Value::Object(o) => Value::Object(o.into_iter().map(|(k, v)| (k, shorten(v))).collect()),
        other => other,
    }
}

fn write_set(path: &str, s: &HashSet<u64>) {
    let mut v: Vec<u8> = Vec::with_capacity(s.len() * 8);
    for x in s {
        v.extend_from_slice(&x.to_le_bytes());
    }
    let _ = std::fs::write(path, v);
}

fn read_sets(dir: &str, suffix: &str) -> HashSet<u64> {
    let mut out = HashSet::new();
    if let Ok(rd) = std::fs::read_dir(dir) {
        for e in rd.flatten() {
            let name = e.file_name().to_string_lossy().to_string();
            if name.ends_with(suffix) {
                if let Ok(b) = std::fs::read(e.path()) {
                    for c in b.chunks_exact(8) {
                        out.insert(u64::from_le_bytes(c.try_into().unwrap()));
                    }
                }
            }
        }
    }
    out
}

// ---------------------------------------------------------------- exec (child side of exec_isolated)

pub fn exec_main<S: Scenario>(args: &[String]) -> i32 {
    // exec <ID> <progressfile>; envelope JSON on stdin
    install_panic_hook();
    let _ = probe::attach(&args[1]);
    let mut s = String::new();
    std::io::stdin().read_to_string(&mut s).unwrap();
    let env: Envelope<S::Case> = match serde_json::from_str(&s) {
        Ok(e) => e,
        Err(e) => {
            eprintln!("HARNESS-ERROR bad envelope: {e}");
            return 2;
        }
    };
    // the parent's clock for the case starts when the warm-up is over (run index 0 with a moving heartbeat)
    probe::set_run(u64::MAX);
    warm_up::<S>(Duration::from_secs(2));
    probe::set_run(0);
    match execute_in_thread::<S>(&env, Duration::from_secs(16) + S::extra_time(&env.case)) {
        ThreadResult::Hang => 3,
        ThreadResult::Done(o) => {
            match o.violation {
                Some(v) => println!("{}", json!({"signature": v.signature, "detail": v.detail})),
                None => println!("{}", json!({"ok": true})),
            }
            0
        }
    }
}

// ---------------------------------------------------------------- known findings

#[derive(Deserialize, Default)]
struct KnownFindings {
    #[serde(default)]
    findings: Vec<KnownFinding>,
}
#[derive(Deserialize, Clone)]
struct KnownFinding {
    property: String,
    signature: String,
    what_fails: String,
}

/// A listed signature matches exactly, or as a prefix when it ends in '*' (one call site whose
/// pre-state component varies).
fn sig_matches(listed: &str, sig: &str) -> bool {
    match listed.strip_suffix('*') {
        Some(prefix) => sig.starts_with(prefix),
        None => listed == sig,
    }
}

fn load_known(id: &str) -> Vec<KnownFinding> {
    let p = format!("{}/known_findings.json", root());
    match std::fs::read_to_string(&p) {
        Ok(s) => match serde_json::from_str::<KnownFindings>(&s) {
            Ok(k) => k.findings.into_iter().filter(|f| f.property == id).collect(),
            Err(e) => {
                eprintln!("HARNESS-ERROR cannot parse {p}: {e}");
                std::process::exit(2);
            }
        },
        Err(_) => vec![],
    }
}

// ---------------------------------------------------------------- supervisor

struct ChildOut {
    done: Option<WorkerDone>,
    violations: Vec<FoundViolation>,
    hang_k: Option<u64>,
    status_ok: bool,
    stderr: String,
}

fn run_worker(id: &str, tier: Tier, seed: u64, start: u64, end: u64, stride: u64, dir: &str, widx: u64, digest_only: bool) -> ChildOut {
    let mut child = Command::new(self_exe())
        .args([
            "worker",
            id,
            tier.name(),
            &seed.to_string(),
            &start.to_string(),
            &end.to_string(),
            &stride.to_string(),
            dir,
            &widx.to_string(),
            if digest_only { "1" } else { "0" },
        ])
        .stdin(Stdio::null())
        .stdout(Stdio::piped())
        .stderr(Stdio::piped())
        .spawn()
        .expect("spawn worker");
    let mut stderr_pipe = child.stderr.take().unwrap();
    let errt = std::thread::spawn(move || {
        let mut s = Vec::new();
        let _ = stderr_pipe.read_to_end(&mut s);
        String::from_utf8_lossy(&s).to_string()
    });
    let mut out = ChildOut { done: None, violations: vec![], hang_k: None, status_ok: false, stderr: String::new() };
    // safety net behind the worker's own per-run watchdog: a worker whose progress page has not
    // moved for two minutes is killed and handled like any other worker that died inside a run
    let pid = child.id();
    let pfile = format!("{dir}/w{widx}.progress");
    let stop = std::sync::Arc::new(std::sync::atomic::AtomicBool::new(false));
    let stop2 = stop.clone();
    let mon = std::thread::spawn(move || {
        let mut last = probe::read_raw(&pfile);
        let mut since = Instant::now();
        while !stop2.load(std::sync::atomic::Ordering::SeqCst) {
            std::thread::sleep(Duration::from_millis(500));
            let now = probe::read_raw(&pfile);
            if now != last {
                last = now;
                since = Instant::now();
            } else if since.elapsed() > Duration::from_secs(120) {
                unsafe {
                    libc::kill(pid as i32, libc::SIGKILL);
                }
                return;
            }
        }
    });
    let rd = std::io::BufReader::new(child.stdout.take().unwrap());
    for line in rd.lines().map_while(Result::ok) {
        if let Ok(v) = serde_json::from_str::<Value>(&line) {
            match v.get("type").and_then(|t| t.as_str()) {
                Some("violation") => {
                    if let Ok(fv) = serde_json::from_value::<FoundViolation>(v["v"].clone()) {
                        out.violations.push(fv);
                    }
                }
                Some("hang") => out.hang_k = v["k"].as_u64(),
                Some("done") => out.done = serde_json::from_value(v["d"].clone()).ok(),
                _ => {}
            }
        }
    }
    let st = child.wait().expect("wait worker");
    stop.store(true, std::sync::atomic::Ordering::SeqCst);
    let _ = mon.join();
    out.status_ok = st.success();
    out.stderr = errt.join().unwrap_or_default();
    if std::env::var("DESKSET_DEBUG").is_ok() && !out.stderr.is_empty() {
        eprint!("{}", out.stderr);
    }
    out
}

static CRASH_SIGS: std::sync::Mutex<std::collections::BTreeSet<String>> = std::sync::Mutex::new(std::collections::BTreeSet::new());

struct Merged {
    done: WorkerDone,
    violations: Vec<FoundViolation>,
    workers_died: u64,
}

fn run_pool<S: Scenario>(tier: Tier, seed: u64, runs: u64, jobs: u64, dir: &str, digest_only: bool) -> Merged {
    let handles: Vec<_> = (0..jobs)
        .map(|w| {
            let dir = dir.to_string();
            std::thread::spawn(move || {
                let mut outs: Vec<ChildOut> = Vec::new();
                let mut crash: Vec<FoundViolation> = Vec::new();
                let mut died = 0u64;
                let mut start = w;
                loop {
                    let o = run_worker(S::ID, tier, seed, start, runs, jobs, &dir, w, digest_only);
                    let finished = o.done.is_some() && o.status_ok;
                    if finished {
                        outs.push(o);
                        break;
                    }
                    // the worker died inside a run: attribute, classify and minimise in isolation
                    died += 1;
                    let (k, _label) = probe::read_back(&format!("{dir}/w{w}.progress")).unwrap_or((start, "-".into()));
                    let k = o.hang_k.unwrap_or(k);
                    if o.stderr.contains("HARNESS-ERROR") {
                        eprintln!("{}", o.stderr);
                        std::process::exit(2);
                    }
                    let env = make_envelope::<S>(seed, tier, k);
                    let iso = exec_isolated::<S>(&env, Duration::from_secs(20) + S::extra_time(&env.case));
                    if let Some(sig) = iso.signature {
                        let isolated = is_crash_class(&sig);
                        // one minimisation per signature for the whole pool: isolated shrinking is slow
                        let (first, nth) = CRASH_SIGS.lock().map(|mut g| (g.insert(sig.clone()), g.len())).unwrap_or((true, 1));
                        if first && !crash.iter().any(|c| c.signature == sig) {
                            let original = serde_json::to_value(&env).unwrap();
                            // the first two crash signatures of a check are minimised; further ones are reported as found
                            let (small, d2, execs) = if isolated && nth > 2 { (env, String::new(), 0) } else { minimise::<S>(env, &sig, isolated) };
                            crash.push(FoundViolation {
                                k,
                                signature: sig,
                                detail: if d2.is_empty() { iso.detail } else { d2 },
                                envelope: serde_json::to_value(&small).unwrap(),
                                original_envelope: original,
                                shrink_execs: execs,
                            });
                        }
                    } else {
                        eprintln!(
                            "HARNESS-ERROR worker {w} died at run {k} but the run does not fail in isolation; stderr: {}",
                            tail(&o.stderr, 400)
                        );
                        std::process::exit(2);
                    }
                    outs.push(o);
                    start = k + jobs;
                    if start >= runs || died > 3 {
                        break;
                    }
                }
                (outs, crash, died)
            })
        })
        .collect();
    let mut m = Merged { done: WorkerDone::default(), violations: vec![], workers_died: 0 };
    for h in handles {
        let (outs, crash, died) = h.join().expect("pool thread");
        m.workers_died += died;
        m.violations.extend(crash);
        for o in outs {
            m.violations.extend(o.violations);
            if let Some(d) = o.done {
                m.done.runs += d.runs;
                m.done.steps += d.steps;
                for (c, n) in d.counters {
                    *m.done.counters.entry(c).or_insert(0) += n;
                }
                m.done.sample_digests.extend(d.sample_digests);
                m.done.samples.extend(d.samples);
                for (c, n) in d.sig_counts {
                    *m.done.sig_counts.entry(c).or_insert(0) += n;
                }
            }
        }
    }
    m
}

fn env_u64(name: &str) -> Option<u64> {
    std::env::var(name).ok().and_then(|v| {
        let v = v.trim();
        if let Some(h) = v.strip_prefix("0x") {
            u64::from_str_radix(h, 16).ok()
        } else {
            v.parse::<u64>().ok().or_else(|| v.parse::<i64>().ok().map(|x| x as u64))
        }
    })
}

pub fn run_main<S: Scenario>(tier: Tier) -> i32 {
    let t0 = Instant::now();
    let seed = env_u64("VERIF_SEED").unwrap_or(DEFAULT_SEED);
    let runs = env_u64("VERIF_RUNS").unwrap_or_else(|| S::runs(tier));
    let jobs = env_u64("VERIF_JOBS").unwrap_or(16).clamp(1, 64).min(runs.max(1));
    if let Err(e) = hashseed::selftest() {
        println!("HARNESS-ERROR {e}");
        return 2;
    }
    let dir = scratch_dir();
    println!("deskset property={} tier={} seed={} runs={} jobs={}", S::ID, tier.name(), seed, runs, jobs);
    let merged = run_pool::<S>(tier, seed, runs, jobs, &dir, false);
    let states = read_sets(&dir, ".states");
    let nontrivial = read_sets(&dir, ".nontrivial");

    // determinism: re-execute the digest sample in a pool of a different size
    let jobs2 = if jobs > 3 { 3 } else { jobs + 1 };
    // (skipped when workers died inside runs: the sample would die at the same runs again, slowly, and the
    // run is going to end with a violation or a harness error anyway)
    let second = if merged.workers_died > 0 {
        println!("note: determinism sample skipped, {} worker deaths in the main pool", merged.workers_died);
        Merged { done: WorkerDone::default(), violations: vec![], workers_died: 0 }
    } else {
        run_pool::<S>(tier, seed, runs, jobs2, &dir, true)
    };
    let a: BTreeMap<u64, u64> = merged.done.sample_digests.iter().cloned().collect();
    let b: BTreeMap<u64, u64> = second.done.sample_digests.iter().cloned().collect();
    let mut mismatches = 0u64;
    for (k, d) in &a {
        if let Some(d2) = b.get(k) {
            if d != d2 {
                mismatches += 1;
                println!("HARNESS-ERROR nondeterminism: run {k} digest {d:#x} vs {d2:#x}");
            }
        }
    }
    let compared = a.keys().filter(|k| b.contains_key(k)).count();
    let _ = std::fs::remove_dir_all(&dir);

    // dedupe violations by signature, smallest run index wins
    let known = load_known(S::ID);
    let mut by_sig: BTreeMap<String, FoundViolation> = BTreeMap::new();
    for v in merged.violations {
        match by_sig.get(&v.signature) {
            Some(o) if o.k <= v.k => {}
            _ => {
                by_sig.insert(v.signature.clone(), v);
            }
        }
    }
    let mut exit = 0;
    let mut n_viol = 0u64;
    let mut known_hit: BTreeMap<String, u64> = BTreeMap::new();
    let mut violation_reports = vec![];
    let _ = std::fs::create_dir_all(format!("{}/replays", root()));
    for (sig, v) in &by_sig {
        let count = merged.done.sig_counts.get(sig).cloned().unwrap_or(1);
        if let Some(kf) = known.iter().find(|f| sig_matches(&f.signature, sig)) {
            println!("KNOWN-FINDING: property={} {} -- {} ({} runs ended here)", S::ID, sig, kf.what_fails, count);
            known_hit.insert(sig.clone(), count);
            continue;
        }
        n_viol += 1;
        let path = format!("{}/replays/{}-{}-{}.json", root(), S::ID, seed, v.k);
        let replay = json!({
            "format": 1, "property": S::ID, "verif_seed": seed, "run": v.k, "tier": tier.name(),
            "signature": sig, "detail": v.detail, "envelope": v.envelope, "original_envelope": v.original_envelope,
            "shrink_executions": v.shrink_execs,
        });
        std::fs::write(&path, serde_json::to_string_pretty(&replay).unwrap()).expect("write replay");
        // a violation is only reported once its replay reproduces in a fresh process
        let env: Envelope<S::Case> = serde_json::from_value(v.envelope.clone()).expect("envelope");
        let iso = exec_isolated::<S>(&env, Duration::from_secs(25) + S::extra_time(&env.case));
        if iso.signature.as_deref() != Some(sig.as_str()) {
            println!("HARNESS-ERROR replay of {path} gave {:?}, expected {sig}", iso.signature);
            exit = 2;
            continue;
        }
        println!("VIOLATION property={} replay={}", S::ID, path);
        println!("  signature={sig}");
        println!("  detail={}", v.detail.replace('\n', "\\n"));
        println!("  runs_ending_here={count} first_run={} shrink_executions={}", v.k, v.shrink_execs);
        violation_reports.push(json!({"signature": sig, "replay": path, "detail": v.detail, "runs": count}));
        if exit == 0 {
            exit = 1;
        }
    }
    if mismatches > 0 {
        exit = 2;
    }

    // evidence
    let wall = t0.elapsed().as_secs_f64();
    let mut faults = serde_json::Map::new();
    let mut reach = serde_json::Map::new();
    let mut ops = serde_json::Map::new();
    let mut other = serde_json::Map::new();
    for (c, n) in &merged.done.counters {
        if let Some(x) = c.strip_prefix("fault.") {
            faults.insert(x.to_string(), json!(n));
        } else if let Some(x) = c.strip_prefix("reach.") {
            reach.insert(x.to_string(), json!(n));
        } else if let Some(x) = c.strip_prefix("op.") {
            ops.insert(x.to_string(), json!(n));
        } else {
            other.insert(c.clone(), json!(n));
        }
    }
    let samples: Vec<Value> = merged.done.samples.iter().take(3).cloned().collect();
    let evaluations = merged.done.runs.max(1);
    let ev = json!({
        "property_id": S::ID,
        "tier": tier.name(),
        "seed": seed,
        "level": S::LEVEL,
        "coverage": {
            "evaluations": evaluations,
            "distinct_nontrivial": nontrivial.len(),
            "rule": S::rule(),
            "samples": if samples.is_empty() { vec![json!("no non-trivial case reached")] } else { samples },
            "exhaustive": S::exhaustive(tier),
            "distinct_states": states.len(),
            "state_measure": S::state_measure(),
            "logical_steps": merged.done.steps,
            "simulated_time_note": "the code under test has no clock; simulated time is the count of logical steps (operations, deliveries, loads)",
            "runs_per_hour": (evaluations as f64 / wall.max(0.001) * 3600.0) as u64,
            "faults_fired": faults,
            "reach": reach,
            "operations": ops,
            "counters": other,
            "ended_on_known_finding": known_hit,
            "violation_signatures": violation_reports,
            "workers_died": merged.workers_died,
            "determinism_sample": {"runs_compared": compared, "pool_sizes": [jobs, jobs2], "mismatches": mismatches},
            "components": S::components(),
        },
        "assumptions": S::assumptions(),
        "wall_s": wall,
        "violations": n_viol,
    });
    let _ = std::fs::create_dir_all(format!("{}/evidence", root()));
    std::fs::write(format!("{}/evidence/{}.json", root(), S::ID), serde_json::to_string_pretty(&ev).unwrap()).expect("write evidence");
    println!(
        "RESULT property={} runs={} steps={} distinct_nontrivial={} states={} violations={} known_findings={} determinism={}/{} wall={:.1}s",
        S::ID,
        merged.done.runs,
        merged.done.steps,
        nontrivial.len(),
        states.len(),
        n_viol,
        known_hit.len(),
        compared as u64 - mismatches,
        compared,
        wall
    );
    exit
}

// ---------------------------------------------------------------- replay

pub fn replay_main<S: Scenario>(path: &str) -> i32 {
    let s = match std::fs::read_to_string(path) {
        Ok(s) => s,
        Err(e) => {
            println!("HARNESS-ERROR cannot read {path}: {e}");
            return 2;
        }
    };
    let v: Value = match serde_json::from_str(&s) {
        Ok(v) => v,
        Err(e) => {
            println!("HARNESS-ERROR bad replay file: {e}");
            return 2;
        }
    };
    let expected = v["signature"].as_str().unwrap_or("").to_string();
    let env: Envelope<S::Case> = match serde_json::from_value(v["envelope"].clone()) {
        Ok(e) => e,
        Err(e) => {
            println!("HARNESS-ERROR bad envelope in replay file: {e}");
            return 2;
        }
    };
    let iso = exec_isolated::<S>(&env, Duration::from_secs(25) + S::extra_time(&env.case));
    let _ = std::fs::remove_dir_all(scratch_dir());
    match iso.signature {
        Some(sig) if sig == expected => {
            println!("REPLAY reproduced signature={sig}");
            println!("  detail={}", iso.detail.replace('\n', "\\n"));
            let known = load_known(S::ID);
            if let Some(kf) = known.iter().find(|f| sig_matches(&f.signature, &sig)) {
                println!("KNOWN-FINDING: property={} {} -- {}", S::ID, sig, kf.what_fails);
                return 0;
            }
            println!("VIOLATION property={} replay={}", S::ID, path);
            1
        }
        Some(sig) => {
            println!("REPLAY diverged: got signature={sig} expected={expected}");
            println!("  detail={}", iso.detail.replace('\n', "\\n"));
            println!("VIOLATION property={} replay={}", S::ID, path);
            1
        }
        None => {
            println!("REPLAY passed: the recorded trace no longer violates {} (expected {expected})", S::ID);
            0
        }
    }
}

pub fn key_of(parts: &[&str]) -> u64 {
    let mut h = 0xcbf2_9ce4_8422_2325u64;
    for p in parts {
        h = fnv_mix(h, p.as_bytes());
        h = fnv_mix(h, b"\x1f");
    }
    h
}

pub fn key_bytes(b: &[u8]) -> u64 {
    fnv(b)
}
