//! Counting global allocator: deterministic resource budget for "never exhausts memory"
//! and a hard cap that turns a run-away loop into an abort the supervisor attributes to a run.
use std::alloc::{GlobalAlloc, Layout, System};
use std::cell::Cell;

pub struct Counting;

thread_local! {
    static ACTIVE: Cell<bool> = const { Cell::new(false) };
    static ALLOCS: Cell<u64> = const { Cell::new(0) };
    static BYTES_TOTAL: Cell<u64> = const { Cell::new(0) };
    static LIVE: Cell<i64> = const { Cell::new(0) };
    static PEAK: Cell<i64> = const { Cell::new(0) };
}

/// Hard cap on cumulative bytes requested inside one metered section (run-away detection).
pub const HARD_CAP_BYTES: u64 = 1 << 30;
pub const MARKER: &str = "DESKSET-ALLOC-CAP\n";

#[inline]
fn on_alloc(size: usize) {
    let _ = ACTIVE.try_with(|a| {
        if a.get() {
            ALLOCS.with(|c| c.set(c.get() + 1));
            let total = BYTES_TOTAL.with(|c| {
                c.set(c.get() + size as u64);
                c.get()
            });
            LIVE.with(|l| {
                l.set(l.get() + size as i64);
                PEAK.with(|p| {
                    if l.get() > p.get() {
                        p.set(l.get())
                    }
                });
            });
            if total > HARD_CAP_BYTES {
                unsafe {
                    libc::write(2, MARKER.as_ptr() as *const libc::c_void, MARKER.len());
                    libc::abort();
                }
            }
        }
    });
}

#[inline]
fn on_free(size: usize) {
    let _ = ACTIVE.try_with(|a| {
        if a.get() {
            LIVE.with(|l| l.set(l.get() - size as i64));
        }
    });
}

unsafe impl GlobalAlloc for Counting {
    unsafe fn alloc(&self, layout: Layout) -> *mut u8 {
        on_alloc(layout.size());
        System.alloc(layout)
    }
    unsafe fn dealloc(&self, ptr: *mut u8, layout: Layout) {
        on_free(layout.size());
        System.dealloc(ptr, layout)
    }
    unsafe fn alloc_zeroed(&self, layout: Layout) -> *mut u8 {
        on_alloc(layout.size());
        System.alloc_zeroed(layout)
    }
    unsafe fn realloc(&self, ptr: *mut u8, layout: Layout, new_size: usize) -> *mut u8 {
        on_free(layout.size());
        on_alloc(new_size);
        System.realloc(ptr, layout, new_size)
    }
}

#[derive(Clone, Copy, Debug, Default)]
pub struct Meter {
    pub allocs: u64,
    pub bytes_total: u64,
    pub peak_live: i64,
}

/// Run `f` with allocation metering on this thread.
pub fn metered<T>(f: impl FnOnce() -> T) -> (T, Meter) {
    ALLOCS.with(|c| c.set(0));
    BYTES_TOTAL.with(|c| c.set(0));
    LIVE.with(|c| c.set(0));
    PEAK.with(|c| c.set(0));
    struct Off;
    impl Drop for Off {
        fn drop(&mut self) {
            ACTIVE.with(|a| a.set(false));
        }
    }
    ACTIVE.with(|a| a.set(true));
    let off = Off;
    let r = f();
    drop(off);
    let m = Meter {
        allocs: ALLOCS.with(|c| c.get()),
        bytes_total: BYTES_TOTAL.with(|c| c.get()),
        peak_live: PEAK.with(|c| c.get()),
    };
    (r, m)
}
