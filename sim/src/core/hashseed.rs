//! The hasher seam. std's RandomState takes its per-thread keys from getrandom(2),
//! which it reaches through a weak symbol. Defining the symbol here makes the keys
//! a simulator-owned, replayable choice: each simulated run executes on a fresh
//! thread whose seed is set before any HashMap is created.
use std::cell::Cell;

thread_local! {
    static HASH_SEED: Cell<u64> = const { Cell::new(0x5EED_5EED_5EED_5EED) };
    static DRAWS: Cell<u64> = const { Cell::new(0) };
}

pub fn set_thread_hash_seed(seed: u64) {
    HASH_SEED.with(|s| s.set(seed));
    DRAWS.with(|d| d.set(0));
}

/// Number of times the (simulated) getrandom was consulted on this thread.
pub fn draws() -> u64 {
    DRAWS.with(|d| d.get())
}

#[no_mangle]
pub unsafe extern "C" fn getrandom(buf: *mut libc::c_void, len: libc::size_t, _flags: libc::c_uint) -> libc::ssize_t {
    let mut x = HASH_SEED.with(|s| s.get()) ^ DRAWS.with(|d| d.get()).wrapping_mul(0xA076_1D64_78BD_642F);
    DRAWS.with(|d| d.set(d.get() + 1));
    let out = buf as *mut u8;
    let mut i = 0usize;
    while i < len {
        let v = super::rng::splitmix(&mut x).to_le_bytes();
        let mut j = 0;
        while j < 8 && i < len {
            *out.add(i) = v[j];
            i += 1;
            j += 1;
        }
    }
    len as libc::ssize_t
}

/// Self-test: same seed => same HashSet iteration order, different seeds => some difference.
pub fn selftest() -> Result<(), String> {
    fn order(seed: u64) -> Vec<u32> {
        std::thread::spawn(move || {
            set_thread_hash_seed(seed);
            let s: std::collections::HashSet<u32> = (0..24).collect();
            s.into_iter().collect::<Vec<_>>()
        })
        .join()
        .unwrap()
    }
    let a = order(1);
    let b = order(1);
    if a != b {
        return Err("hash seam: same seed gave different iteration orders".into());
    }
    let mut differs = false;
    for s in 2..10 {
        if order(s) != a {
            differs = true;
        }
    }
    if !differs {
        return Err("hash seam: different seeds never changed iteration order (getrandom not interposed?)".into());
    }
    Ok(())
}

/// Run `f` in a fresh hash epoch: a new thread whose RandomState keys derive from `seed`.
pub fn in_epoch<T: Send + 'static>(seed: u64, f: impl FnOnce() -> T + Send + 'static) -> T {
    let h = std::thread::Builder::new()
        .stack_size(4 << 20)
        .spawn(move || {
            set_thread_hash_seed(seed);
            f()
        })
        .expect("spawn epoch thread");
    match h.join() {
        Ok(v) => v,
        Err(p) => std::panic::resume_unwind(p),
    }
}
