pub mod alloc;
pub mod driver;
pub mod hashseed;
pub mod io;
pub mod probe;
pub mod rng;
