//! The one PRNG every simulated choice is drawn from (xoshiro256** seeded by SplitMix64).
#[derive(Clone, Debug)]
pub struct Rng {
    s: [u64; 4],
}

pub fn splitmix(x: &mut u64) -> u64 {
    *x = x.wrapping_add(0x9E37_79B9_7F4A_7C15);
    let mut z = *x;
    z = (z ^ (z >> 30)).wrapping_mul(0xBF58_476D_1CE4_E5B9);
    z = (z ^ (z >> 27)).wrapping_mul(0x94D0_49BB_1331_11EB);
    z ^ (z >> 31)
}

/// Mix a base seed, a property tag and a run index into a per-run seed.
pub fn mix(seed: u64, tag: &str, k: u64) -> u64 {
    let mut h = seed ^ 0xDEB8_22DE_B822_0000;
    for b in tag.bytes() {
        h = (h ^ b as u64).wrapping_mul(0x1000_0000_01B3);
    }
    let mut x = h ^ k.wrapping_mul(0xD6E8_FEB8_6659_FD93);
    splitmix(&mut x);
    splitmix(&mut x)
}

impl Rng {
    pub fn new(seed: u64) -> Rng {
        let mut x = seed;
        let s = [splitmix(&mut x), splitmix(&mut x), splitmix(&mut x), splitmix(&mut x)];
        Rng { s }
    }
    pub fn next_u64(&mut self) -> u64 {
        let r = self.s[1].wrapping_mul(5).rotate_left(7).wrapping_mul(9);
        let t = self.s[1] << 17;
        self.s[2] ^= self.s[0];
        self.s[3] ^= self.s[1];
        self.s[1] ^= self.s[2];
        self.s[0] ^= self.s[3];
        self.s[2] ^= t;
        self.s[3] = self.s[3].rotate_left(45);
        r
    }
    /// Uniform in 0..n (n > 0).
    pub fn below(&mut self, n: usize) -> usize {
        debug_assert!(n > 0);
        (self.next_u64() % n as u64) as usize
    }
    /// Uniform in lo..=hi.
    pub fn range(&mut self, lo: usize, hi: usize) -> usize {
        lo + self.below(hi - lo + 1)
    }
    /// True with probability num/den.
    pub fn chance(&mut self, num: u32, den: u32) -> bool {
        (self.next_u64() % den as u64) < num as u64
    }
    pub fn pick<'a, T>(&mut self, xs: &'a [T]) -> &'a T {
        &xs[self.below(xs.len())]
    }
    /// Pick a string from a slice of string slices.
    pub fn s<'a>(&mut self, xs: &[&'a str]) -> &'a str {
        xs[self.below(xs.len())]
    }
    pub fn shuffle<T>(&mut self, xs: &mut [T]) {
        for i in (1..xs.len()).rev() {
            let j = self.below(i + 1);
            xs.swap(i, j);
        }
    }
    /// Pick an index by weight.
    pub fn weighted(&mut self, ws: &[u32]) -> usize {
        let total: u64 = ws.iter().map(|w| *w as u64).sum();
        let mut r = self.next_u64() % total.max(1);
        for (i, w) in ws.iter().enumerate() {
            if r < *w as u64 {
                return i;
            }
            r -= *w as u64;
        }
        ws.len() - 1
    }
}

/// FNV-1a over bytes: the harness's own deterministic hash (never std's RandomState).
pub fn fnv(bytes: &[u8]) -> u64 {
    let mut h: u64 = 0xcbf2_9ce4_8422_2325;
    for b in bytes {
        h = (h ^ *b as u64).wrapping_mul(0x1000_0000_01B3);
    }
    h
}

pub fn fnv_mix(h: u64, bytes: &[u8]) -> u64 {
    let mut h = h;
    for b in bytes {
        h = (h ^ *b as u64).wrapping_mul(0x1000_0000_01B3);
    }
    h ^ (h >> 29)
}
