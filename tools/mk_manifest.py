#!/usr/bin/env python3
"""Regenerate /verif/MANIFEST.json from the table below (kept here so the manifest stays valid and consistent)."""
import json, os

BASELINE = "cd /repo && cargo test --workspace --no-fail-fast --offline"

CLAIMED = {
 "C01": dict(level="exploration", ref="DESIGN.md §2 C01",
    technique="deterministic simulation: seeded delivery schedules (chunking, EINTR, early EOF, hard errors, byte flips) over the std::io::Read seam, reference = direct parse of the delivered bytes",
    text="Seeded simulation of a producer storing text and a consumer loading it through all six Read-based entry points under chunked, interrupted, cut and failing deliveries, and (one case in twelve) through the eight from_file entry points over a real file that holds the whole text, a torn prefix, or is lost; after each load the printed tree must equal the bytes the source delivers, strict/tolerant agreement must hold, EINTR must be invisible, hard errors and invalid UTF-8 must surface as Err. Sampling, not proof: the right level for a property whose only schedule-dependent part is the reader seam.",
    note="Trusted: std::io::Read::read_to_string, rowan, the harness's SimReader and text generators. The from_str clauses are covered as seeded sampling only. Sizes: up to 4 MiB through every entry point, one 17 MiB document through the two lossless readers; inputs of 4 GiB and more (rowan's u32 lengths) are out of reach."),
 "C19": dict(level="fault_enumeration", ref="DESIGN.md §2 C19",
    technique="deterministic simulation with enumerated link faults: every truncation offset and generated trailers per seeded message, checked against a reference state machine",
    text="For each seeded clear-signed message the link is cut after every character offset (enumerated), delivered without final newline and continued with generated trailers; each received text goes to strip_pgp_signature and is compared with a reference state machine, plus the direct safety clause that a payload presented as signed is the full payload.",
    note="Trusted: the 40-line reference state machine written from the property text; a CR inside a line is excluded from the line alphabet (domain decision); payload lines ending in CR are included and end on the known finding."),

 "C02": dict(level="fault_enumeration", ref="DESIGN.md §2 C02",
    technique="deterministic simulation with storage/transport fault injection (truncation enumerated in the thorough tier) over all 64 parsing entry points; counting allocator + supervisor for panic/abort/hang/budget",
    text="Well-formed instances of every artefact kind are damaged by construct-aware storage and transport faults (truncation at every offset in the thorough tier, lost/duplicated/swapped lines, hostile characters, CRLF, junk tails) and handed to all 57 &str entry points and, through a chunked faulting reader, the 7 Read-based ones; each call must return, within a polynomial allocation budget, without panic, abort, stack overflow or hang (worker processes attribute deaths to the run).",
    note="Trusted: the allocation budget as the deterministic proxy for time; the 20 s watchdog only as backstop. Third-party parsers run real."),
 "C04": dict(level="exploration", ref="DESIGN.md §2 C04",
    technique="deterministic simulation of editing sessions: seeded schedule of 1-3 clients editing one shared rowan tree through aliasing handles, restart (print/re-read through faulting reader) events, list-model oracle + reference-segmenter locality diff + strict re-read after every step",
    text="Seeded editing sessions over one shared tree: clients acquire paragraph handles at different times and set/insert/remove/rename/observe through them (second handles, handles to removed paragraphs), interleaved with paragraph-level edits and restarts; after every step the list model, the byte-level locality of the edit and the strict re-read of the printed text are checked.",
    note="Trusted: the list model (Appendix E) and the reference segmenter (Appendix F). Start states the reference reads differently from the implementation are skipped (C03)."),
 "C05": dict(level="exploration", ref="DESIGN.md §2 C05",
    technique="same session simulator as C04 with paragraph-level operations in the foreground (add/insert/remove at in- and out-of-range indices interleaved with field edits through handles acquired before and after, restarts)",
    text="Same simulator with add/insert/remove-paragraph in the foreground: paragraph list equals Vec push/insert/remove by identity, handles survive index shifts, other paragraphs and comments byte-identical, blank lines change only next to the edit, printed text re-reads to the same paragraphs.",
    note="Trusted: list model and reference segmenter; comments in the same non-blank run as a removed paragraph may go with it (they can be inside its node)."),
 "C08": dict(level="exploration", ref="DESIGN.md §2 C08",
    technique="deterministic simulation of lossy editing sessions with restart events: list-model oracle per step, print -> lossy from_reader (faulting reader) -> equality, separator and lossless-agreement checks",
    text="Lossy documents built from name/value pairs are edited through iter_mut() with set/insert/remove/get against a list model; restart events print the document and reload it through lossy::Deb822::from_reader over a chunked EINTR-ing reader and through the strict lossless reader; reloaded value must equal the live value.",
    note="Trusted: list model. Paragraphs are never emptied and continuation lines never start with '#' (domain decisions)."),

 "C18": dict(level="exploration", ref="DESIGN.md §2 C18",
    technique="deterministic simulation of hash epochs: print / parse / re-print each typed value in three fresh threads whose RandomState keys are drawn from the run's PRNG through the interposed getrandom; table-driven codec checks for the seed-independent rows",
    text="Claimed narrowly: PackageListEntry prints a HashMap, so its round trip depends on the process's hasher keys; the simulator makes those keys a scheduled, replayable choice and re-prints every value in a different hash epoch from the one that parsed it. The other 22 type rows are run as seeded table-driven checks (outcome cannot depend on a schedule).",
    note="Trusted: the interposed getrandom symbol as the only source of RandomState keys (self-tested at start-up); canonical extras order = sorted by key."),
 "C20": dict(level="exploration", ref="DESIGN.md §2 C20",
    technique="deterministic simulation of the persist/restart/reload cycle across hash epochs: generated typed documents parsed, printed, re-parsed under fresh hasher keys and re-printed; field-wise comparison with the lossless reader via an independent reference relation reader; structurally invalid variants must be rejected",
    text="Each generated typed document goes through value -> text -> (new hasher keys) -> value -> text; values and prints must agree, the typed fields must carry what the lossless reader shows for the same text (relation fields compared structurally with a reference reader), text fields line by line, re-serialised lists modulo whitespace; a document generated from the field tables must have a typed value at all (clause wellformed-rejected; only the lossy relation reader's rejections are exempt), and structurally invalid variants (no/two source paragraphs, paragraph of neither kind, missing mandatory field) must be rejected.",
    note="Trusted: field tables and generators (gen/typed.rs), the reference relation reader. Rejections by the lossy relation reader are counted, not judged (that is C10)."),

 "C15": dict(level="exploration", ref="DESIGN.md §2 C15",
    technique="deterministic simulation of accessor sessions: seeded schedules of view creation (aliasing views of one paragraph), setter / clearing-setter / getter calls from the accessor table (about 170 rows), a view's own wrap_and_sort followed by a setter, and restarts; oracle = reference codecs + C04 list model + locality diff + strict re-read",
    text="Views of control, apt, buildinfo, copyright and DEP-3 paragraphs are created as aliases into one tree at scheduled times; setters from the accessor table are called in seeded sequences through one view and read back through every live view and a fresh one; the C04 list model demands exactly one field with the documented name holding the reference encoding (replaced in place or appended, removed when cleared), the locality diff demands that nothing else moves, the printed text must re-read; at the start every getter is compared with the reference reading of the raw field, Control::source()/binaries() and the copyright lookups (iter_licenses, find_license_by_name, find_files) with reference lookups.",
    note="Trusted: the accessor table (field names, separators, yes/no spelling written from the Debian field definitions) and reference codecs. Changes (one setter, no paragraph access) is covered through its getters on generated text, get_pool_path and set_format."),

 "C11": dict(level="exploration", ref="DESIGN.md §2 C11",
    technique="deterministic simulation of relation-editing sessions: seeded schedules over a root handle and entry/relation handles acquired at different times (freshness tracked across re-rooting operations), list-of-lists model + independent reference relation reader + strict re-parse + lexical separator checks after every judged step",
    text="Seeded sessions over one relationship field: the root owner pushes/inserts/replaces/removes entries, other clients obtain entry and relation handles at scheduled times and edit through them (alternatives, version constraints with all operators and epochs, architecture qualifier/list, build profiles), with operands built by parsing, constructors and the builder; after every judged step the printed field is read by an independent reference reader and by the strict reader and compared with the list-of-lists model, separators are checked lexically and untouched entries must keep their text. Steps through handles that pre-date a re-rooting are scheduled but not judged.",
    note="Trusted: list-of-lists model (Appendix E), reference relation reader (model/relations.rs), the scheduler's freshness bookkeeping for handles."),
}

NOT_APPLICABLE = {
 "C03": "pure function of one input string (from_str + accessors): no schedule, fault, history or seed can change its truth; needs grammar-based enumeration/property testing, a different technique",
 "C06": "agreement of two pure functions of the same string; from_reader exists but agreement cannot depend on delivery",
 "C07": "wrap_and_sort is a pure function of (document, settings) returning a new tree; idempotence is f(f(x))=f(x) on values; no handle, stream or seed involved",
 "C09": "parse_relaxed(&str, bool) only, no reader API; pure function of the input text",
 "C10": "pure function of the input text (both relation readers)",
 "C12": "pure evaluation; the HashMap lookup form is point lookup, never iteration, so hasher seeds cannot matter",
 "C13": "pure; sort over a total Ord; HashSet appears only inside an order-insensitive equality",
 "C14": "pure value conversions between lossy and lossless relations",
 "C16": "pure functions of (value, prior paragraph); hash-typed fields compare order-insensitively; quantifier has no history",
 "C17": "pure (regex translation and filter().last()); no schedule, fault or seed dependence",
}

PENDING = {}  # filled below for designed-but-not-yet-registered checks

ALL = ["C%02d" % i for i in range(1, 21)]

def main():
    checks = []
    for pid in sorted(CLAIMED):
        c = CLAIMED[pid]
        checks.append({
            "property_id": pid,
            "quick_cmd": f"./check {pid} quick",
            "thorough_cmd": f"./check {pid} thorough",
            "evidence_file": f"/verif/evidence/{pid}.json",
            "replay_cmd_template": f"./check {pid} --replay {{path}}",
            "engine": "deskset",
            "level_claimed": {"category": c["level"], "text": c["text"], "design_ref": c["ref"]},
            "level_note": c["note"],
            "technique": c["technique"],
        })
    na = []
    for pid in ALL:
        if pid in CLAIMED:
            continue
        if pid in NOT_APPLICABLE:
            na.append({"property_id": pid, "reason": "not applicable to deterministic simulation: " + NOT_APPLICABLE[pid]})
        else:
            na.append({"property_id": pid, "reason": "designed (DESIGN.md §2) but its check is not registered yet in this revision; not claimed until it runs clean"})
    m = {
        "version": 1,
        "setup_cmd": "cd /verif/sim && CARGO_NET_OFFLINE=true cargo build --release --offline",
        "hooks": {
            "guard": "none",
            "enable": "no hooks: every seam (std::io::Read/Write arguments, the weak getrandom symbol behind RandomState, rowan handles, print/re-parse) is reachable from outside; deskset depends on the /repo crates by path, so every build uses /repo's working tree",
            "baseline_off_cmd": BASELINE,
            "source_commits": [],
            "add_only": True,
        },
        "engines": [{
            "name": "deskset",
            "path": "/verif/sim",
            "serves_properties": sorted(CLAIMED),
            "kind_free_text": "single-binary deterministic simulator: seeded PRNG -> workload + delivery/fault plan + hasher seeds; worker processes with counting allocator and watchdog; reference models as oracles; delta-debugging shrinker; JSON replay files",
        }],
        "checks": checks,
        "not_applicable": na,
        "notes": "VERIF_SEED (default 0xDEB822) decides every choice; exit 0 held / 1 VIOLATION / 2 harness error; known findings in /verif/known_findings.json; see DESIGN.md",
    }
    with open("/verif/MANIFEST.json", "w") as f:
        json.dump(m, f, indent=1)
        f.write("\n")

if __name__ == "__main__":
    main()
