#!/usr/bin/env python3
"""Regenerate /verif/seeded/SUMMARY.md from the meta.json files."""
import json,glob,os
rows=[]
for d in sorted(glob.glob('/verif/seeded/C*-*')):
    m=json.load(open(d+'/meta.json')); sid=os.path.basename(d)
    oc=m.get('our_checks',[])
    caught=any(c['exit']==1 for c in oc)
    note=('missed at first; strengthened: '+m['strengthening']) if 'strengthening' in m else 'caught as is'
    sig=' '.join((c.get('signatures','') or '').split()[:1][0] if (c.get('signatures','') or '').split() else '-' for c in oc)
    rows.append((sid,(m.get('summary','') or '')[:170].replace('\n',' ').replace('|','/'),(m.get('needs','') or '')[:190].replace('\n',' ').replace('|','/'),'caught' if caught else 'MISSED', note.replace('|','/'), sig))
out=['# Independently seeded changes','',
'Each change was written by a sub-agent that saw only the property text and a scratch worktree of the repository (nothing from /verif).',
"Each was confirmed by `tools/seeded_verify.sh`: the demonstration passes on the clean tree and fails with the change, the repository's own suite passes with the change; then the matching check (quick tier, default seed) was run against a scratch copy of the repository with the change applied.",'',
'| id | change | needs | result | note | first signature |','|---|---|---|---|---|---|']
for r in rows: out.append('| '+' | '.join(r)+' |')
caught=sum(1 for r in rows if r[3]=='caught')
out+=['',f'{caught} of {len(rows)} caught by the checks as they stand now; {sum(1 for r in rows if r[4].startswith("missed"))} of them only after the strengthening described in the note column.']
open('/verif/seeded/SUMMARY.md','w').write('\n'.join(out)+'\n')
print('\n'.join(out[-3:]))
