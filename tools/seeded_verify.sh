#!/bin/bash
# usage: tools/seeded_verify.sh <worktree> <i> <ID> [extra check ids...]
# Confirms a sub-agent's seeded change independently (clean: demo passes; patched: existing suite passes, demo fails),
# then runs our check(s) against /repo with the patch applied, and files everything under /verif/seeded/<ID>-<i>/.
set -u
WT=$1; I=$2; ID=$3; shift 3; EXTRA="$*"
S=$WT/SEEDED/$I
[ -f $S/patch.diff ] || { echo "no patch"; exit 2; }
export CARGO_TARGET_DIR=$WT/target CARGO_NET_OFFLINE=true
CRATE=$(python3 -c "import json;print(json.load(open('$S/meta.json')).get('demo_crate_dir','.') or '.')")
CRATE=${CRATE%/tests}; CRATE=${CRATE%/}
[ "$CRATE" = "" ] && CRATE=.
cd $WT || exit 2
git checkout -q -- . ; rm -f $CRATE/tests/seeded_demo.rs
mkdir -p $CRATE/tests && cp $S/demo.rs $CRATE/tests/seeded_demo.rs
PKG=$(cd $CRATE && grep -m1 '^name' Cargo.toml | sed 's/.*"\(.*\)".*/\1/')
run_demo() { cargo test --offline -p $PKG --test seeded_demo 2>&1 | grep -E "^test result|^error(\[|:)|overflowed its stack" | head -3; }
echo "--- clean tree: demo"; CLEAN=$(run_demo); echo "$CLEAN"
git apply $S/patch.diff || { echo "PATCH DOES NOT APPLY"; rm -f $CRATE/tests/seeded_demo.rs; exit 2; }
echo "--- patched: demo"; PATCHED=$(run_demo); echo "$PATCHED"
rm -f $CRATE/tests/seeded_demo.rs
echo "--- patched: existing suite"; SUITE=$(cargo test --workspace --offline 2>&1 | grep -E "^test result|FAILED|error(\[|:)" | grep -v "ok\." | head -5); echo "${SUITE:-all ok}"
git checkout -q -- .
clean_ok=false; patched_fail=false; suite_ok=false
echo "$CLEAN" | grep -q "test result: ok" && clean_ok=true
echo "$PATCHED" | grep -q "FAILED\|test failed" && patched_fail=true
[ -z "$SUITE" ] && suite_ok=true
echo "confirmed: demo_passes_clean=$clean_ok demo_fails_patched=$patched_fail suite_passes_patched=$suite_ok"
# our checks against a scratch copy of the repository with the patch (never /repo itself while background runs use it)
unset CARGO_TARGET_DIR
SCR=/tmp/deskset-scratch-repo
# one scratch copy and one alt target: check phases of parallel invocations are serialised
exec 9>/tmp/deskset-seeded.lock; flock 9
[ -d $SCR ] || git -C /repo worktree add -q --detach $SCR HEAD
cd $SCR && git checkout -q -- . && git apply $S/patch.diff || { echo "patch does not apply to scratch repo"; exit 2; }
DET=""
for C in $ID $EXTRA; do
  out=$(cd /verif && DESKSET_REPO=$SCR ./check $C quick 2>&1); rc=$?
  sig=$(echo "$out" | grep -m2 "signature=" | sed 's/ *signature=//' | tr '\n' ' ')
  echo "check $C: exit=$rc $sig"
  DET="$DET{\"check\":\"$C\",\"exit\":$rc,\"signatures\":\"$sig\"},"
done
cd $SCR && git checkout -q -- .
D=/verif/seeded/$ID-${SEED_LABEL:-}$I; mkdir -p $D
cp $S/patch.diff $S/demo.rs $D/
python3 - <<PY
import json
m=json.load(open('$S/meta.json'))
m['confirmed_by_us']={'demo_passes_on_clean_tree': '$clean_ok'=='true','demo_fails_with_change': '$patched_fail'=='true','existing_suite_passes_with_change': '$suite_ok'=='true','how':'tools/seeded_verify.sh in the scratch worktree: cargo test -p <crate> --test seeded_demo on clean and patched tree; cargo test --workspace --offline on the patched tree'}
m['our_checks']=json.loads('[' + '''$DET'''.rstrip(',') + ']')
json.dump(m,open('$D/meta.json','w'),indent=1)
PY
echo "filed under $D"
