#!/bin/bash
# usage: tools/run_all.sh <quick|thorough> [seed]  -- run every claimed check, print one line each
cd "$(dirname "$0")/.." || exit 2
TIER=${1:-quick}
[ -n "${2:-}" ] && export VERIF_SEED=$2
rc=0
for p in C01 C02 C04 C05 C08 C11 C15 C18 C19 C20; do
  out=$(./check $p $TIER 2>&1); e=$?
  echo "$out" | grep -E "^(VIOLATION|KNOWN-FINDING|HARNESS-ERROR|RESULT)|signature=" | cut -c1-300
  echo "exit=$e"
  [ $e -ne 0 ] && rc=1
done
exit $rc
