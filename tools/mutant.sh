#!/bin/bash
# usage: tools/mutant.sh <patch> <ID> [tier]  -- apply a patch to /repo, run the check, revert. Prints exit code.
set -u
P=$(realpath "$1"); ID=$2; TIER=${3:-quick}
cd /repo || exit 2
if [ -n "$(git status --porcelain --untracked-files=no)" ]; then echo "repo dirty"; exit 2; fi
git apply "$P" || { echo "patch does not apply"; exit 2; }
cd /verif && ./check "$ID" "$TIER" > /tmp/mutant.$$.out 2>&1
rc=$?
cd /repo && git checkout -- . 
grep -E '^(VIOLATION|KNOWN-FINDING|HARNESS-ERROR|RESULT)|signature=' /tmp/mutant.$$.out | head -12
rm -f /tmp/mutant.$$.out
echo "EXIT=$rc"
