#!/bin/bash
# usage: tools/mutant.sh <patch> <ID> [tier]  -- apply a patch to a scratch copy of the repository
# (/tmp/deskset-scratch-repo, a git worktree of /repo at HEAD), run the check against it, revert.
set -u
P=$(realpath "$1"); ID=$2; TIER=${3:-quick}
SCR=/tmp/deskset-scratch-repo
[ -d $SCR ] || git -C /repo worktree add -q $SCR HEAD
cd $SCR || exit 2
git checkout -q --detach $(git -C /repo rev-parse HEAD) 2>/dev/null
git checkout -q -- .
git apply "$P" || { echo "patch does not apply"; exit 2; }
cd /verif && DESKSET_REPO=$SCR ./check "$ID" "$TIER" > /tmp/mutant.$$.out 2>&1
rc=$?
cd $SCR && git checkout -q -- .
grep -E '^(VIOLATION|KNOWN-FINDING|HARNESS-ERROR|RESULT)|signature=' /tmp/mutant.$$.out | head -12
rm -f /tmp/mutant.$$.out
echo "EXIT=$rc"
